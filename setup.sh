#!/bin/bash
# Builds the verification engine from files on disk only (offline).
set -e
export CARGO_NET_OFFLINE=true
cd /verif/engine
cargo build --release --offline
echo "setup ok"
