#!/bin/bash
# Builds the verification engine from files on disk only (offline).
set -e
export CARGO_NET_OFFLINE=true
cd /verif/engine
cargo build --release --offline
cd /repo && CARGO_TARGET_DIR=/verif/work/target-iwe cargo build --release --offline -p iwe

# libFuzzer targets for the thorough tier (./check builds them again when needed; not fatal here)
(cd /verif/engine/fuzz && cargo +nightly fuzz build -O -s none >/verif/work/build.fuzz.log 2>&1 && echo "fuzz targets ok") || echo "warning: fuzz targets not built (see /verif/work/build.fuzz.log); the quick tier does not need them"
echo "setup ok"
