#!/bin/bash
# Builds the verification engine from files on disk only (offline).
set -e
export CARGO_NET_OFFLINE=true
cd /verif/engine
cargo build --release --offline
cd /repo && CARGO_TARGET_DIR=/verif/work/target-iwe cargo build --release --offline -p iwe
echo "setup ok"
