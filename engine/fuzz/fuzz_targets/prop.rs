#![no_main]
// Generic structured target: the bytes drive the proptest strategy of the property named in the
// configuration file ($VERIF_FUZZ_CFG); the property's own oracle runs on the decoded case.
use libfuzzer_sys::fuzz_target;
fuzz_target!(|data: &[u8]| {
    vcheck::fuzzing::fuzz_entry(data);
});
