#![no_main]
// Byte-level target for C03: the bytes are the note itself.
use libfuzzer_sys::fuzz_target;
fuzz_target!(|data: &[u8]| {
    vcheck::fuzzing::fuzz_raw_doc(data);
});
