//! Own path algebra for note keys (independent of the `relative-path` crate used by iwe).

/// Strip one trailing ".md".
pub fn strip_md(s: &str) -> &str {
    s.strip_suffix(".md").unwrap_or(s)
}

/// Directory part of a key ("" for a root-level key).
pub fn dir_of(key: &str) -> String {
    match key.rfind('/') {
        Some(i) => key[..i].to_string(),
        None => String::new(),
    }
}

/// Resolve `url` (already without extension) against directory `dir`; fold "." and "..".
/// Leading ".." beyond the root are kept (such a link leaves the library and names no note).
pub fn resolve(dir: &str, url: &str) -> String {
    let mut parts: Vec<&str> = vec![];
    for seg in dir.split('/').chain(url.split('/')) {
        match seg {
            "" | "." => {}
            ".." => {
                if parts.last().map(|p| *p != "..").unwrap_or(false) {
                    parts.pop();
                } else {
                    parts.push("..");
                }
            }
            s => parts.push(s),
        }
    }
    parts.join("/")
}

/// Shortest relative spelling of `key` as seen from directory `dir`.
pub fn relative(dir: &str, key: &str) -> String {
    let d: Vec<&str> = dir.split('/').filter(|s| !s.is_empty()).collect();
    let k: Vec<&str> = key.split('/').filter(|s| !s.is_empty()).collect();
    let kd = if k.is_empty() { &k[..] } else { &k[..k.len() - 1] };
    let mut common = 0;
    while common < d.len() && common < kd.len() && d[common] == kd[common] {
        common += 1;
    }
    let mut out: Vec<&str> = vec![];
    for _ in common..d.len() {
        out.push("..");
    }
    out.extend(&k[common..]);
    out.join("/")
}

#[cfg(test)]
mod t {
    use super::*;
    #[test]
    fn basics() {
        assert_eq!(resolve("", "a"), "a");
        assert_eq!(resolve("d", "a"), "d/a");
        assert_eq!(resolve("d", "../a"), "a");
        assert_eq!(resolve("d/e", "../../a"), "a");
        assert_eq!(resolve("d", "./a"), "d/a");
        assert_eq!(resolve("", "../a"), "../a");
        assert_eq!(dir_of("d/e/x"), "d/e");
        assert_eq!(dir_of("x"), "");
    }
}
