//! Generic machinery: property trait, worker (proptest runner), supervisor (process fan-out,
//! crash attribution, known findings, evidence), replay.

use proptest::strategy::{BoxedStrategy, Strategy};
use proptest::test_runner::{Config, RngAlgorithm, TestCaseError, TestError, TestRng, TestRunner};
use serde::de::DeserializeOwned;
use serde::{Deserialize, Serialize};
use serde_json::{json, Value};
use sha2::{Digest, Sha256};
use std::collections::{BTreeMap, BTreeSet};
use std::fmt::Debug;
use std::io::Write;
use std::path::{Path, PathBuf};
use std::process::{Command, Stdio};
use std::time::{Duration, Instant};

/// Root of the verification tree. `/verif` unless VERIF_ROOT_DIR says otherwise (used only by the
/// mutant runner, which works on a private copy so that it cannot disturb the registered checks).
pub static VERIF_ROOT: std::sync::LazyLock<String> =
    std::sync::LazyLock::new(|| std::env::var("VERIF_ROOT_DIR").unwrap_or_else(|_| "/verif".to_string()));

#[derive(Clone, Copy, Debug, PartialEq, Eq, Serialize, Deserialize)]
pub enum Tier {
    Quick,
    Thorough,
}

impl Tier {
    pub fn name(&self) -> &'static str {
        match self {
            Tier::Quick => "quick",
            Tier::Thorough => "thorough",
        }
    }
}

/// Generator feature switches. A feature is ON unless listed in `off`.
#[derive(Clone, Debug, Default, Serialize, Deserialize)]
pub struct Features {
    pub off: BTreeSet<String>,
}

impl Features {
    pub fn on(&self, name: &str) -> bool {
        !self.off.contains(name)
    }
    pub fn all_on() -> Features {
        Features::default()
    }
}

/// Per-run statistics collected by checks.
#[derive(Clone, Debug, Default, Serialize, Deserialize)]
pub struct Stats {
    pub classes: BTreeMap<String, u64>,
}

impl Stats {
    pub fn class(&mut self, name: &str) {
        *self.classes.entry(name.to_string()).or_insert(0) += 1;
    }
    pub fn class_n(&mut self, name: &str, n: u64) {
        *self.classes.entry(name.to_string()).or_insert(0) += n;
    }
    pub fn merge(&mut self, other: &Stats) {
        for (k, v) in &other.classes {
            *self.classes.entry(k.clone()).or_insert(0) += v;
        }
    }
}

#[derive(Clone, Debug, Serialize, Deserialize)]
pub enum Verdict {
    /// Property held on this case.
    Pass { nontrivial: bool },
    /// Case is outside the property's domain (generator self-check failed etc.); counted.
    Discard(String),
    /// Property violated. `sig` is a stable classification, `detail` human readable.
    Fail { sig: String, detail: String },
}

impl Verdict {
    pub fn fail(sig: impl Into<String>, detail: impl Into<String>) -> Verdict {
        Verdict::Fail {
            sig: sig.into(),
            detail: detail.into(),
        }
    }
}

pub trait Property: Sync {
    type Case: Serialize + DeserializeOwned + Debug + Clone + 'static;

    fn id(&self) -> &'static str;
    fn level(&self) -> &'static str {
        "exploration"
    }
    /// How cases are generated and what makes one non-trivial.
    fn rule(&self) -> String;
    fn assumptions(&self) -> Vec<String>;
    /// Number of generated cases for the tier (fixed work, never a time quota).
    fn cases(&self, tier: Tier) -> u64;
    fn strategy(&self, features: &Features, tier: Tier) -> BoxedStrategy<Self::Case>;
    fn check(&self, case: &Self::Case, stats: &mut Stats) -> Verdict;
    /// Compact rendering for evidence samples.
    fn sample(&self, case: &Self::Case) -> Value {
        serde_json::to_value(case).unwrap_or(Value::Null)
    }
    /// Deterministic extra cases run by the supervisor itself in every tier (regression corpus,
    /// exhaustive sub-spaces). Returned as cases.
    fn fixed_cases(&self, _tier: Tier) -> Vec<Self::Case> {
        vec![]
    }
    /// Whether a hang (watchdog) is a violation for this property (C03, C17) or inconclusive.
    fn hang_is_violation(&self) -> bool {
        false
    }
    /// Max shrink iterations.
    fn max_shrink_iters(&self) -> u32 {
        4000
    }
    /// How many worker processes.
    fn workers(&self) -> usize {
        16
    }
    /// Runs per job of the coverage-guided phase (16 jobs); 0 = none in this tier.
    fn fuzz_runs(&self, tier: Tier) -> u64 {
        match tier {
            Tier::Quick => 0,
            Tier::Thorough => 6000,
        }
    }
    /// Generator features outside this property's domain (restrictions stated by the property's
    /// quantifier, not findings). Always off.
    fn domain_off(&self) -> Vec<&'static str> {
        vec![]
    }
}

// ---------------------------------------------------------------------------------------------
// active generator features, visible to checks (scan-level domain predicates)
// ---------------------------------------------------------------------------------------------

static ACTIVE_FEATURES: std::sync::OnceLock<Features> = std::sync::OnceLock::new();

pub fn set_active_features(f: &Features) {
    let _ = ACTIVE_FEATURES.set(f.clone());
}

/// In replay / single-case mode nothing is set and every feature counts as on (strict judgement).
pub fn feature_on(name: &str) -> bool {
    ACTIVE_FEATURES.get().map(|f| f.on(name)).unwrap_or(true)
}

// ---------------------------------------------------------------------------------------------
// panic capture
// ---------------------------------------------------------------------------------------------

use std::sync::Mutex;

#[derive(Clone, Debug, Serialize, Deserialize)]
pub struct PanicRecord {
    pub thread: String,
    pub file: String,
    pub message: String,
}

impl PanicRecord {
    /// Signature: file (path tail) + message with digits and quoted payloads normalised.
    pub fn signature(&self) -> String {
        format!("panic|{}|{}", short_file(&self.file), normalise_msg(&self.message))
    }
}

fn short_file(f: &str) -> String {
    // keep path from "crates/" or last two components
    if let Some(p) = f.find("crates/") {
        return f[p..].to_string();
    }
    if let Some(p) = f.find("/src/") {
        // registry crate: name-version/src/..
        let head = &f[..p];
        let name = head.rsplit('/').next().unwrap_or("");
        return format!("{}{}", name, &f[p..]);
    }
    f.to_string()
}

pub fn normalise_msg(m: &str) -> String {
    // first line, cut at first ':' payload for Debug dumps, digits -> N, truncated
    let first = m.lines().next().unwrap_or("");
    let mut out = String::new();
    let mut last_digit = false;
    for ch in first.chars() {
        if ch.is_ascii_digit() {
            if !last_digit {
                out.push('N');
            }
            last_digit = true;
        } else {
            last_digit = false;
            out.push(ch);
        }
        if out.len() >= 60 {
            break;
        }
    }
    out
}

static PANICS: Mutex<Vec<PanicRecord>> = Mutex::new(Vec::new());
static PANIC_TX: Mutex<Vec<crossbeam_channel::Sender<PanicRecord>>> = Mutex::new(Vec::new());

pub fn install_panic_hook() {
    std::panic::set_hook(Box::new(|info| {
        let loc = info
            .location()
            .map(|l| l.file().to_string())
            .unwrap_or_default();
        let msg = if let Some(s) = info.payload().downcast_ref::<&str>() {
            s.to_string()
        } else if let Some(s) = info.payload().downcast_ref::<String>() {
            s.clone()
        } else {
            "<non-string payload>".to_string()
        };
        let rec = PanicRecord {
            thread: std::thread::current().name().unwrap_or("").to_string(),
            file: loc,
            message: msg,
        };
        if std::env::var("VERIF_QUIET_PANICS").is_err() {
            eprintln!("[panic] {} @ {}: {}", rec.thread, rec.file, rec.message.lines().next().unwrap_or(""));
        }
        if let Ok(mut txs) = PANIC_TX.lock() {
            // every live listener (one per in-process server) hears about the panic
            txs.retain(|tx| tx.send(rec.clone()).is_ok());
        }
        if let Ok(mut p) = PANICS.lock() {
            p.push(rec);
        }
    }));
}

/// Register a listener for panics on any thread (`None` is accepted and ignored: listeners
/// disappear when their receiver is dropped).
pub fn set_panic_channel(tx: Option<crossbeam_channel::Sender<PanicRecord>>) {
    if let Some(tx) = tx {
        PANIC_TX.lock().unwrap().push(tx);
    }
}

pub fn take_panics() -> Vec<PanicRecord> {
    std::mem::take(&mut *PANICS.lock().unwrap())
}

/// Run `f`, converting a panic on this thread into Err(record).
pub fn guarded<T>(f: impl FnOnce() -> T) -> Result<T, PanicRecord> {
    let _ = take_panics();
    match std::panic::catch_unwind(std::panic::AssertUnwindSafe(f)) {
        Ok(v) => Ok(v),
        Err(_) => {
            let recs = take_panics();
            Err(recs.into_iter().last().unwrap_or(PanicRecord {
                thread: String::new(),
                file: "?".into(),
                message: "panic without record".into(),
            }))
        }
    }
}

// ---------------------------------------------------------------------------------------------
// hashing / seeds
// ---------------------------------------------------------------------------------------------

pub fn sha_hex(bytes: &[u8]) -> String {
    let d = Sha256::digest(bytes);
    d.iter().map(|b| format!("{:02x}", b)).collect()
}

pub fn hash64(bytes: &[u8]) -> u64 {
    let d = Sha256::digest(bytes);
    u64::from_le_bytes(d[0..8].try_into().unwrap())
}

pub fn mix_seed(seed: u64, id: &str, index: u64) -> [u8; 32] {
    let mut h = Sha256::new();
    h.update(seed.to_le_bytes());
    h.update(id.as_bytes());
    h.update(index.to_le_bytes());
    let d = h.finalize();
    let mut out = [0u8; 32];
    out.copy_from_slice(&d);
    out
}

// ---------------------------------------------------------------------------------------------
// known findings
// ---------------------------------------------------------------------------------------------

#[derive(Clone, Debug, Serialize, Deserialize)]
pub struct KnownFinding {
    pub id: String,
    pub properties: Vec<String>,
    /// "known" or "fixed"
    pub status: String,
    /// signature patterns ('*' matches any run of characters); the replay must fail with one of them
    pub signatures: Vec<String>,
    pub what: String,
    /// replay file per property (relative to /verif)
    #[serde(default)]
    pub replays: BTreeMap<String, String>,
    /// generator features switched off in the strict search while this finding is active
    #[serde(default)]
    pub excludes: Vec<String>,
    #[serde(default)]
    pub commit: Option<String>,
    /// properties (ids) for which the signatures are tolerated in the strict search as well
    /// (byte-level / hostile domains where the trigger cannot be excluded by construction)
    #[serde(default)]
    pub tolerate_in_strict: Vec<String>,
}

pub fn load_known() -> Vec<KnownFinding> {
    let p = Path::new(VERIF_ROOT.as_str()).join("known_findings.json");
    match std::fs::read_to_string(&p) {
        Ok(s) => serde_json::from_str(&s).expect("known_findings.json must parse"),
        Err(_) => vec![],
    }
}

pub fn sig_matches(pattern: &str, sig: &str) -> bool {
    // glob with '*' only
    let parts: Vec<&str> = pattern.split('*').collect();
    if parts.len() == 1 {
        return pattern == sig;
    }
    let mut rest = sig;
    for (i, part) in parts.iter().enumerate() {
        if i == 0 {
            if !rest.starts_with(part) {
                return false;
            }
            rest = &rest[part.len()..];
        } else if i == parts.len() - 1 {
            return rest.ends_with(part);
        } else {
            match rest.find(part) {
                Some(p) => rest = &rest[p + part.len()..],
                None => return false,
            }
        }
    }
    true
}

impl KnownFinding {
    pub fn matches(&self, sig: &str) -> bool {
        self.signatures.iter().any(|p| sig_matches(p, sig))
    }
}

// ---------------------------------------------------------------------------------------------
// worker
// ---------------------------------------------------------------------------------------------

#[derive(Clone, Debug, Serialize, Deserialize)]
pub struct WorkerCfg {
    pub id: String,
    pub index: u64,
    pub seed: u64,
    pub cases: u64,
    pub tier: Tier,
    pub features: Features,
    /// signature patterns that are tolerated (active known findings)
    pub tolerated: Vec<String>,
    pub journal: String,
    pub result: String,
    /// survey mode: never stop; record a histogram of failure signatures with the smallest example
    #[serde(default)]
    pub survey: bool,
}

#[derive(Clone, Debug, Default, Serialize, Deserialize)]
pub struct WorkerResult {
    pub evaluations: u64,
    pub discards: u64,
    pub discard_reasons: BTreeMap<String, u64>,
    pub nontrivial_hashes: Vec<u64>,
    pub stats: Stats,
    pub excluded_known: BTreeMap<String, u64>,
    pub samples: Vec<Value>,
    pub failure: Option<Failure>,
    pub wall_s: f64,
    pub shrink_note: Option<String>,
    #[serde(default)]
    pub survey: BTreeMap<String, (u64, usize, Value, String)>,
}

#[derive(Clone, Debug, Serialize, Deserialize)]
pub struct Failure {
    pub case: Value,
    pub sig: String,
    pub detail: String,
    /// the failure as first found, before shrinking: (case, signature, detail)
    #[serde(default)]
    pub first: Option<(Value, String, String)>,
}

/// Evaluate one case, mapping panics to Fail verdicts.
pub fn eval_case<P: Property>(p: &P, case: &P::Case, stats: &mut Stats) -> Verdict {
    let mut local = Stats::default();
    let r = guarded(|| p.check(case, &mut local));
    match r {
        Ok(v) => {
            stats.merge(&local);
            v
        }
        Err(rec) => Verdict::Fail {
            sig: rec.signature(),
            detail: format!("panic at {}: {}", rec.file, rec.message),
        },
    }
}

pub fn run_worker<P: Property>(p: &P, cfg: &WorkerCfg) -> WorkerResult {
    let start = Instant::now();
    let res = WorkerResult::default();
    set_active_features(&cfg.features);
    let strategy = p.strategy(&cfg.features, cfg.tier);
    let config = Config {
        cases: cfg.cases as u32,
        failure_persistence: None,
        max_shrink_iters: p.max_shrink_iters(),
        max_global_rejects: 1_000_000,
        max_local_rejects: 1_000_000,
        ..Config::default()
    };
    let rng = TestRng::from_seed(RngAlgorithm::ChaCha, &mix_seed(cfg.seed, &cfg.id, cfg.index));
    let mut runner = TestRunner::new_with_rng(config, rng);

    struct WState {
        res: WorkerResult,
        hashes: BTreeSet<u64>,
        failed_once: bool,
        first_fail_sig: Option<String>,
        first_fail: Option<(Value, String, String)>,
    }
    let state = std::cell::RefCell::new(WState {
        res,
        hashes: BTreeSet::new(),
        failed_once: false,
        first_fail_sig: None,
        first_fail: None,
    });
    let journal = PathBuf::from(&cfg.journal);

    let result = runner.run(&strategy, |case| {
        let bytes = serde_json::to_vec(&case).unwrap_or_default();
        // journal the case we are about to run (crash attribution)
        let _ = std::fs::write(&journal, &bytes);
        let mut local = Stats::default();
        let verdict = eval_case(p, &case, &mut local);
        let mut guard = state.borrow_mut();
        let st = &mut *guard;
        let counting = !st.failed_once;
        if counting {
            st.res.evaluations += 1;
            st.res.stats.merge(&local);
        }
        match verdict {
            Verdict::Pass { nontrivial } => {
                if counting && nontrivial {
                    let h = hash64(&bytes);
                    if st.hashes.insert(h) && st.res.samples.len() < 3 {
                        st.res.samples.push(p.sample(&case));
                    }
                }
                Ok(())
            }
            Verdict::Discard(reason) => {
                if counting {
                    st.res.discards += 1;
                    *st.res.discard_reasons.entry(reason).or_insert(0) += 1;
                }
                Ok(())
            }
            Verdict::Fail { sig, detail } => {
                if cfg.survey {
                    let size = bytes.len();
                    let e = st.res.survey.entry(sig.clone()).or_insert((0, usize::MAX, Value::Null, String::new()));
                    e.0 += 1;
                    if size < e.1 {
                        e.1 = size;
                        e.2 = serde_json::to_value(&case).unwrap_or(Value::Null);
                        e.3 = detail.clone();
                    }
                    return Ok(());
                }
                if let Some(pat) = cfg.tolerated.iter().find(|pat| sig_matches(pat, &sig)) {
                    if counting {
                        *st.res.excluded_known.entry(pat.clone()).or_insert(0) += 1;
                    }
                    return Ok(());
                }
                if counting {
                    st.failed_once = true;
                    st.first_fail_sig = Some(sig.clone());
                    st.first_fail = Some((serde_json::to_value(&case).unwrap_or(Value::Null), sig.clone(), detail.clone()));
                } else if std::env::var("VERIF_SHRINK_ANY_SIG").is_err() {
                    // keep shrinking on the same signature only, so the minimal case shows the
                    // failure that was found and not a neighbouring one
                    if st.first_fail_sig.as_deref() != Some(sig.as_str()) {
                        return Ok(());
                    }
                }
                Err(TestCaseError::fail(format!("{}: {}", sig, detail)))
            }
        }
    });
    let WState { mut res, hashes, first_fail_sig, first_fail, .. } = state.into_inner();

    match result {
        Ok(()) => {}
        Err(TestError::Fail(_, minimal)) => {
            let mut scratch = Stats::default();
            let v = eval_case(p, &minimal, &mut scratch);
            let (sig, detail) = match v {
                Verdict::Fail { sig, detail } => (sig, detail),
                other => (
                    first_fail_sig.clone().unwrap_or_else(|| "unstable".into()),
                    format!("minimal case did not fail again on re-evaluation: {:?}", other),
                ),
            };
            res.failure = Some(Failure {
                case: serde_json::to_value(&minimal).unwrap_or(Value::Null),
                sig,
                detail,
                first: first_fail,
            });
        }
        Err(TestError::Abort(reason)) => {
            res.shrink_note = Some(format!("runner aborted: {}", reason));
        }
    }
    res.nontrivial_hashes = hashes.into_iter().collect();
    res.wall_s = start.elapsed().as_secs_f64();
    let _ = std::fs::remove_file(&journal);
    res
}

// ---------------------------------------------------------------------------------------------
// one-case evaluation in a subprocess ("vcheck one")
// ---------------------------------------------------------------------------------------------

#[derive(Clone, Debug, Serialize, Deserialize)]
pub struct OneResult {
    pub verdict: Verdict,
}

pub fn run_one<P: Property>(p: &P, case_json: &Value) -> Verdict {
    let case: P::Case = match serde_json::from_value(case_json.clone()) {
        Ok(c) => c,
        Err(e) => return Verdict::Discard(format!("replay case does not deserialize: {}", e)),
    };
    let mut st = Stats::default();
    eval_case(p, &case, &mut st)
}

/// Outcome of running a case in an isolated child process.
#[derive(Debug)]
pub enum Isolated {
    Verdict(Verdict),
    /// died by signal / abnormal exit; stderr tail included
    Crashed { status: String, stderr_tail: String },
    TimedOut,
}

pub fn isolate_case(id: &str, case_file: &Path, timeout: Duration) -> Isolated {
    let exe = std::env::current_exe().expect("current_exe");
    let mut child = Command::new(exe)
        .arg("one")
        .arg(id)
        .arg(case_file)
        .stdout(Stdio::piped())
        .stderr(Stdio::piped())
        .spawn()
        .expect("spawn vcheck one");
    let start = Instant::now();
    loop {
        match child.try_wait() {
            Ok(Some(_)) => break,
            Ok(None) => {
                if start.elapsed() > timeout {
                    let _ = child.kill();
                    let _ = child.wait();
                    return Isolated::TimedOut;
                }
                std::thread::sleep(Duration::from_millis(5));
            }
            Err(_) => break,
        }
    }
    let out = child.wait_with_output().expect("wait child");
    let stdout = String::from_utf8_lossy(&out.stdout).to_string();
    let stderr = String::from_utf8_lossy(&out.stderr).to_string();
    if out.status.success() {
        for line in stdout.lines().rev() {
            if let Some(rest) = line.strip_prefix("ONE-RESULT ") {
                if let Ok(r) = serde_json::from_str::<OneResult>(rest) {
                    return Isolated::Verdict(r.verdict);
                }
            }
        }
    }
    let tail: String = stderr
        .lines()
        .rev()
        .take(6)
        .collect::<Vec<_>>()
        .into_iter()
        .rev()
        .collect::<Vec<_>>()
        .join("\n");
    Isolated::Crashed {
        status: format!("{:?}", out.status),
        stderr_tail: tail,
    }
}

pub fn crash_signature(stderr_tail: &str, status: &str) -> String {
    if stderr_tail.contains("has overflowed its stack") {
        "abort|stack-overflow".to_string()
    } else if stderr_tail.contains("memory allocation") {
        "abort|alloc-failure".to_string()
    } else {
        format!("abort|{}", normalise_msg(status))
    }
}

// ---------------------------------------------------------------------------------------------
// supervisor
// ---------------------------------------------------------------------------------------------

pub struct RunOpts {
    pub tier: Tier,
    pub seed: u64,
}

fn work_dir(id: &str) -> PathBuf {
    let d = Path::new(VERIF_ROOT.as_str()).join("work").join(id);
    let _ = std::fs::create_dir_all(&d);
    d
}

pub fn write_replay(id: &str, case: &Value, sig: &str, detail: &str) -> PathBuf {
    let dir = Path::new(VERIF_ROOT.as_str()).join("replays").join(id);
    let _ = std::fs::create_dir_all(&dir);
    let body = json!({"property": id, "signature": sig, "detail": detail, "case": case});
    let bytes = serde_json::to_vec_pretty(&body).unwrap();
    let name = format!("new-{}.json", &sha_hex(&serde_json::to_vec(case).unwrap())[..16]);
    let p = dir.join(name);
    let _ = std::fs::write(&p, bytes);
    p
}

pub fn load_replay_case(path: &Path) -> Result<Value, String> {
    let s = std::fs::read_to_string(path).map_err(|e| format!("{}: {}", path.display(), e))?;
    let v: Value = serde_json::from_str(&s).map_err(|e| format!("{}: {}", path.display(), e))?;
    Ok(v.get("case").cloned().unwrap_or(v))
}

pub struct Supervisor {
    pub violations: Vec<(String, PathBuf, String)>, // (sig, replay, detail)
    pub known_lines: Vec<String>,
    pub inconclusive: Vec<String>,
}

/// Entry for `vcheck run <ID>`. Returns process exit code.
pub fn supervise<P: Property>(p: &P, opts: &RunOpts) -> i32 {
    let start = Instant::now();
    let id = p.id();
    let wd = work_dir(id);
    let mut sup = Supervisor {
        violations: vec![],
        known_lines: vec![],
        inconclusive: vec![],
    };

    // 1. known findings: replay each
    let known: Vec<KnownFinding> = load_known()
        .into_iter()
        .filter(|k| k.properties.iter().any(|q| q == id))
        .collect();
    let mut active: Vec<KnownFinding> = vec![];
    let mut features_strict = Features::default();
    for f in p.domain_off() {
        features_strict.off.insert(f.to_string());
    }
    if let Ok(off) = std::env::var("VERIF_FEATURES_OFF") {
        for f in off.split(',').filter(|f| !f.is_empty()) {
            features_strict.off.insert(f.to_string());
        }
    }
    let mut kf_status: Vec<Value> = vec![];
    for k in &known {
        // own replay if there is one, otherwise the finding's first replay under its own property
        // (a root cause shared between properties is active for all of them while it reproduces)
        let (rid, rp) = match k.replays.get(id) {
            Some(r) => (id.to_string(), Some(Path::new(VERIF_ROOT.as_str()).join(r))),
            None => match k.replays.iter().next() {
                Some((pid, r)) => (pid.clone(), Some(Path::new(VERIF_ROOT.as_str()).join(r))),
                None => (id.to_string(), None),
            },
        };
        let outcome = match &rp {
            Some(path) if path.exists() => Some(isolate_case(&rid, path, Duration::from_secs(120))),
            _ => None,
        };
        let (reproduces, got_sig, got_detail) = match &outcome {
            Some(Isolated::Verdict(Verdict::Fail { sig, detail })) => {
                (k.matches(sig), Some(sig.clone()), detail.clone())
            }
            Some(Isolated::Crashed { status, stderr_tail }) => {
                let s = crash_signature(stderr_tail, status);
                (k.matches(&s), Some(s), stderr_tail.clone())
            }
            Some(Isolated::TimedOut) => {
                let s = "hang|watchdog".to_string();
                (k.matches(&s), Some(s), String::new())
            }
            _ => (false, None, String::new()),
        };
        if k.status == "known" {
            if reproduces {
                let line = format!("KNOWN-FINDING: property={} {} {}", id, k.id, k.what);
                println!("{}", line);
                sup.known_lines.push(line);
                active.push(k.clone());
                for f in &k.excludes {
                    features_strict.off.insert(f.clone());
                }
                kf_status.push(json!({"id": k.id, "status": "known", "reproduces": true}));
            } else {
                // someone repaired it, or its replay shows another failure: strict oracle applies again
                if let Some(sig) = &got_sig {
                    // replay fails, but with a different signature: that is an unlisted violation
                    let path = rp.clone().unwrap();
                    sup.violations.push((sig.clone(), path, got_detail.clone()));
                }
                kf_status.push(json!({"id": k.id, "status": "known", "reproduces": false, "got": got_sig}));
            }
        } else {
            // fixed: must pass now
            match &outcome {
                Some(Isolated::Verdict(Verdict::Pass { .. })) | Some(Isolated::Verdict(Verdict::Discard(_))) | None => {
                    kf_status.push(json!({"id": k.id, "status": "fixed", "passes": true}));
                }
                _ => {
                    let path = rp.clone().unwrap();
                    sup.violations.push((
                        got_sig.clone().unwrap_or_else(|| "regression".into()),
                        path,
                        format!("fixed finding {} is back: {}", k.id, got_detail),
                    ));
                    kf_status.push(json!({"id": k.id, "status": "fixed", "passes": false}));
                }
            }
        }
    }

    // 2. fixed cases run by the supervisor (regression corpus etc.)
    let mut agg = WorkerResult::default();
    let mut hashes: BTreeSet<u64> = BTreeSet::new();
    for case in p.fixed_cases(opts.tier) {
        let bytes = serde_json::to_vec(&case).unwrap();
        let v = eval_case(p, &case, &mut agg.stats);
        agg.evaluations += 1;
        agg.stats.class("fixed-case");
        match v {
            Verdict::Pass { nontrivial } => {
                if nontrivial {
                    hashes.insert(hash64(&bytes));
                }
            }
            Verdict::Discard(r) => {
                agg.discards += 1;
                *agg.discard_reasons.entry(r).or_insert(0) += 1;
            }
            Verdict::Fail { sig, detail } => {
                let cv = serde_json::to_value(&case).unwrap();
                let path = write_replay(id, &cv, &sig, &detail);
                sup.violations.push((sig, path, detail));
            }
        }
    }

    // 3. workers
    // VERIF_FUZZ_ONLY=1: skip the proptest search (used to measure what the coverage-guided phase
    // finds on its own)
    let total = if std::env::var("VERIF_FUZZ_ONLY").is_ok() { 0 } else { p.cases(opts.tier) };
    let nworkers = p.workers().max(1) as u64;
    // up to a quarter of the workers explore one known-finding domain each (that finding's
    // generator features switched back on, its signatures tolerated there and only there);
    // all other workers run the strict domain, where every failure is a violation
    let kd_findings: Vec<&KnownFinding> = active.iter().filter(|k| !k.excludes.is_empty()).collect();
    let known_domain_workers = if kd_findings.is_empty() || std::env::var("VERIF_SURVEY").is_ok() || std::env::var("VERIF_STRICT_ONLY").is_ok() {
        0
    } else {
        (nworkers / 4).max(1).min(kd_findings.len() as u64)
    };
    // crash signatures (abort/hang) are attributed by the supervisor: tolerate those of active findings
    let tolerated: Vec<String> = active
        .iter()
        .flat_map(|k| k.signatures.iter().cloned())
        .filter(|s| s.starts_with("abort|") || s.starts_with("hang|"))
        .collect();
    let strict_tolerated: Vec<String> = active
        .iter()
        .filter(|k| k.tolerate_in_strict.iter().any(|q| q == id))
        .flat_map(|k| k.signatures.iter().cloned())
        .collect();
    let per = (total + nworkers - 1) / nworkers;
    let exe = std::env::current_exe().expect("current_exe");
    let mut children = vec![];
    for i in 0..nworkers {
        let (feats, tol) = if i < known_domain_workers {
            let k = kd_findings[((i + opts.seed) % kd_findings.len() as u64) as usize];
            let mut f = features_strict.clone();
            for e in &k.excludes {
                f.off.remove(e);
            }
            let mut t = k.signatures.clone();
            t.extend(strict_tolerated.iter().cloned());
            (f, t)
        } else {
            (features_strict.clone(), strict_tolerated.clone())
        };
        let cfg = WorkerCfg {
            id: id.to_string(),
            index: i,
            seed: opts.seed,
            // known-domain workers are secondary: a third of a strict worker's share
            cases: if i < known_domain_workers { (per / 3).max(1) } else { per },
            tier: opts.tier,
            features: feats,
            tolerated: tol,
            journal: wd.join(format!("w{}.current", i)).to_string_lossy().to_string(),
            result: wd.join(format!("w{}.result.json", i)).to_string_lossy().to_string(),
            survey: std::env::var("VERIF_SURVEY").is_ok(),
        };
        let cfg_path = wd.join(format!("w{}.cfg.json", i));
        std::fs::write(&cfg_path, serde_json::to_vec(&cfg).unwrap()).unwrap();
        let _ = std::fs::remove_file(&cfg.result);
        let _ = std::fs::remove_file(&cfg.journal);
        let errf = std::fs::File::create(wd.join(format!("w{}.stderr", i))).unwrap();
        let child = Command::new(&exe)
            .arg("worker")
            .arg(id)
            .arg(&cfg_path)
            .env("RAYON_NUM_THREADS", "2")
            .stdout(Stdio::null())
            .stderr(Stdio::from(errf))
            .spawn()
            .expect("spawn worker");
        children.push((i, cfg, child));
    }

    // watchdog: a worker whose journal has not changed for `stall` seconds is considered hung
    let stall = Duration::from_secs(
        std::env::var("VERIF_STALL_S").ok().and_then(|s| s.parse().ok()).unwrap_or(90),
    );
    let mut restarts = 0u32;
    let mut pending = children;
    let mut last_change: BTreeMap<u64, (Instant, Option<std::time::SystemTime>)> = BTreeMap::new();
    while !pending.is_empty() {
        let mut still = vec![];
        for (i, cfg, mut child) in pending.into_iter() {
            match child.try_wait() {
                Ok(Some(status)) => {
                    let rpath = PathBuf::from(&cfg.result);
                    let parsed: Option<WorkerResult> = std::fs::read(&rpath)
                        .ok()
                        .and_then(|b| serde_json::from_slice(&b).ok());
                    match parsed {
                        Some(r) if status.success() => {
                            merge_result(&mut agg, &mut hashes, &r);
                            if let Some(f) = r.failure {
                                // a violation comes with a case that fails again in a fresh process:
                                // the shrunk case first, then the case as first found (three tries
                                // each); a failure that cannot be reproduced is reported as
                                // inconclusive, with what was seen
                                let mut confirmed = false;
                                let mut candidates = vec![(f.case.clone(), f.sig.clone(), f.detail.clone())];
                                if let Some(first) = &f.first {
                                    candidates.push(first.clone());
                                }
                                'cands: for (n, (case, sig, detail)) in candidates.iter().enumerate() {
                                    let tmp = wd.join(format!("confirm-{}-{}.json", i, n));
                                    let _ = std::fs::write(&tmp, serde_json::to_vec(case).unwrap_or_default());
                                    for _ in 0..3 {
                                        match isolate_case(id, &tmp, Duration::from_secs(180)) {
                                            Isolated::Verdict(Verdict::Fail { sig: s2, .. }) if strict_tolerated.iter().any(|pat| sig_matches(pat, &s2)) => {}
                                            Isolated::Verdict(Verdict::Fail { sig: s2, detail: d2 }) => {
                                                let path = write_replay(id, case, &s2, &d2);
                                                sup.violations.push((s2, path, d2));
                                                confirmed = true;
                                                break 'cands;
                                            }
                                            Isolated::Crashed { status, stderr_tail } => {
                                                let s2 = crash_signature(&stderr_tail, &status);
                                                if !tolerated.iter().any(|pat| sig_matches(pat, &s2)) {
                                                    let path = write_replay(id, case, &s2, &stderr_tail);
                                                    sup.violations.push((s2, path, stderr_tail));
                                                    confirmed = true;
                                                    break 'cands;
                                                }
                                            }
                                            Isolated::TimedOut => {
                                                if p.hang_is_violation() {
                                                    let path = write_replay(id, case, "hang|watchdog", "case still running after 180 s in isolation");
                                                    sup.violations.push(("hang|watchdog".into(), path, "hang".into()));
                                                    confirmed = true;
                                                    break 'cands;
                                                }
                                            }
                                            Isolated::Verdict(_) => {}
                                        }
                                    }
                                    let _ = (sig, detail);
                                }
                                if !confirmed {
                                    let (_, sig, detail) = f.first.clone().unwrap_or((Value::Null, f.sig.clone(), f.detail.clone()));
                                    let kept = wd.join(format!("unreproduced-{}.json", i));
                                    let _ = std::fs::write(&kept, serde_json::to_vec_pretty(&json!({"property": id, "signature": sig, "detail": detail, "case": f.first.as_ref().map(|x| x.0.clone()).unwrap_or(f.case.clone())})).unwrap_or_default());
                                    sup.inconclusive.push(format!(
                                        "a worker saw a failure ({}) that did not happen again in six isolated re-runs; kept at {}: {}",
                                        sig,
                                        kept.display(),
                                        detail.lines().take(3).collect::<Vec<_>>().join(" / ")
                                    ));
                                }
                            }
                            if let Some(n) = r.shrink_note {
                                sup.inconclusive.push(n);
                            }
                        }
                        _ => {
                            // abnormal death: attribute to journaled case
                            let jpath = PathBuf::from(&cfg.journal);
                            let stderr_tail = tail_file(&wd.join(format!("w{}.stderr", i)), 6);
                            handle_crash(p, id, &jpath, &format!("{:?}", status), &stderr_tail, &tolerated, &mut agg, &mut sup);
                            // restart the worker with a derived index to finish its share (bounded)
                            if restarts < 64 && sup.violations.is_empty() {
                                restarts += 1;
                                let mut cfg2 = cfg.clone();
                                cfg2.index = cfg.index + 1000 * restarts as u64;
                                cfg2.cases = (cfg.cases / 2).max(1);
                                let cfg_path = wd.join(format!("w{}.cfg.json", i));
                                std::fs::write(&cfg_path, serde_json::to_vec(&cfg2).unwrap()).unwrap();
                                let _ = std::fs::remove_file(&cfg2.result);
                                let errf = std::fs::File::create(wd.join(format!("w{}.stderr", i))).unwrap();
                                let child = Command::new(&exe)
                                    .arg("worker")
                                    .arg(id)
                                    .arg(&cfg_path)
                                    .env("RAYON_NUM_THREADS", "2")
                                    .stdout(Stdio::null())
                                    .stderr(Stdio::from(errf))
                                    .spawn()
                                    .expect("respawn worker");
                                still.push((i, cfg2, child));
                            }
                        }
                    }
                }
                Ok(None) => {
                    // stall detection
                    let jpath = PathBuf::from(&cfg.journal);
                    let mtime = std::fs::metadata(&jpath).and_then(|m| m.modified()).ok();
                    let e = last_change.entry(i).or_insert((Instant::now(), mtime));
                    if e.1 != mtime {
                        *e = (Instant::now(), mtime);
                    }
                    if e.0.elapsed() > stall && mtime.is_some() {
                        // copy journal, kill worker, confirm in isolation
                        let saved = wd.join(format!("w{}.hung.json", i));
                        let _ = std::fs::copy(&jpath, &saved);
                        let _ = child.kill();
                        let _ = child.wait();
                        match isolate_case(id, &saved, Duration::from_secs(60)) {
                            Isolated::TimedOut => {
                                if p.hang_is_violation() {
                                    let sig = "hang|watchdog".to_string();
                                    if let Some(pat) = tolerated.iter().find(|pat| sig_matches(pat, &sig)) {
                                        *agg.excluded_known.entry(pat.clone()).or_insert(0) += 1;
                                    } else {
                                        let case: Value = std::fs::read(&saved).ok().and_then(|b| serde_json::from_slice(&b).ok()).unwrap_or(Value::Null);
                                        let path = write_replay(id, &case, &sig, "case still running after 60 s in isolation");
                                        sup.violations.push((sig, path, "hang".into()));
                                    }
                                } else {
                                    sup.inconclusive.push(format!("worker {} stalled; case saved at {}", i, saved.display()));
                                }
                            }
                            _ => {
                                sup.inconclusive.push(format!("worker {} stalled but case finishes in isolation (load?)", i));
                            }
                        }
                        last_change.remove(&i);
                    } else {
                        still.push((i, cfg, child));
                    }
                }
                Err(e) => {
                    sup.inconclusive.push(format!("wait error on worker {}: {}", i, e));
                }
            }
        }
        pending = still;
        if !pending.is_empty() {
            std::thread::sleep(Duration::from_millis(20));
        }
    }

    // 3b. coverage-guided phase (thorough tier): libFuzzer drives the same strategy and oracle
    let fuzz_evidence = if sup.violations.is_empty() {
        fuzz_phase(p, opts, &features_strict, &strict_tolerated, &tolerated, &mut agg, &mut sup)
    } else {
        Value::Null
    };

    // 4. evidence + verdict
    let distinct = hashes.len() as u64;
    let wall = start.elapsed().as_secs_f64();
    let discard_rate = if agg.evaluations > 0 {
        agg.discards as f64 / agg.evaluations as f64
    } else {
        0.0
    };
    let mut samples = agg.samples.clone();
    samples.truncate(5);
    if samples.is_empty() {
        samples.push(json!("no non-trivial sample produced"));
    }
    let evidence = json!({
        "property_id": id,
        "tier": opts.tier.name(),
        "seed": opts.seed,
        "level": p.level(),
        "coverage": {
            "evaluations": agg.evaluations,
            "distinct_nontrivial": distinct,
            "rule": p.rule(),
            "samples": samples,
            "generator_discards": agg.discards,
            "discard_reasons": agg.discard_reasons,
            "excluded_known": agg.excluded_known,
            "classes": agg.stats.classes,
            "known_findings": kf_status,
            "strict_domain_features_off": features_strict.off,
            "workers": nworkers,
            "worker_restarts_after_crash": restarts,
            "fuzz": fuzz_evidence,
            "exhaustive": false
        },
        "assumptions": p.assumptions(),
        "wall_s": wall,
        "violations": sup.violations.len(),
        "inconclusive": sup.inconclusive,
    });
    let edir = Path::new(VERIF_ROOT.as_str()).join("evidence");
    let _ = std::fs::create_dir_all(&edir);
    let mut f = std::fs::File::create(edir.join(format!("{}.json", id))).expect("evidence file");
    f.write_all(serde_json::to_string_pretty(&evidence).unwrap().as_bytes()).unwrap();

    if std::env::var("VERIF_SURVEY").is_ok() {
        let sdir = Path::new(VERIF_ROOT.as_str()).join("work").join(id).join("survey");
        let _ = std::fs::remove_dir_all(&sdir);
        let _ = std::fs::create_dir_all(&sdir);
        let mut v: Vec<_> = agg.survey.iter().collect();
        v.sort_by(|a, b| b.1 .0.cmp(&a.1 .0));
        for (n, (sig, (count, _, case, detail))) in v.iter().enumerate() {
            println!("SURVEY #{} count={} sig={}", n, count, sig);
            for l in detail.lines().take(30) {
                println!("   | {}", l);
            }
            let body = json!({"property": id, "signature": sig, "detail": detail, "case": case});
            let _ = std::fs::write(sdir.join(format!("{}.json", n)), serde_json::to_vec_pretty(&body).unwrap());
        }
    }
    println!(
        "property={} tier={} seed={} evaluations={} distinct_nontrivial={} discards={} excluded_known={:?} wall={:.1}s",
        id, opts.tier.name(), opts.seed, agg.evaluations, distinct, agg.discards, agg.excluded_known, wall
    );
    if !sup.violations.is_empty() {
        let mut seen = BTreeSet::new();
        for (sig, path, detail) in &sup.violations {
            if !seen.insert(path.clone()) {
                continue;
            }
            println!("VIOLATION property={} replay={}", id, path.display());
            println!("  signature: {}", sig);
            for l in detail.lines().take(40) {
                println!("  | {}", l);
            }
        }
        return 1;
    }
    if discard_rate > 0.25 {
        println!("INCONCLUSIVE property={} generator unhealthy: discard rate {:.1}%", id, discard_rate * 100.0);
        return 2;
    }
    if !sup.inconclusive.is_empty() {
        for l in &sup.inconclusive {
            println!("INCONCLUSIVE property={} {}", id, l);
        }
        return 2;
    }
    0
}

/// Coverage-guided phase. Runs the libFuzzer targets built from engine/fuzz (by ./check in the
/// thorough tier) as 16 independent processes sharing one corpus directory, each with its own
/// `-seed` and a fixed `-runs`; every case a target reports, and every case a target died on, is
/// re-judged in an isolated process of the normal engine before it counts.
fn fuzz_phase<P: Property>(
    p: &P,
    opts: &RunOpts,
    features: &Features,
    strict_tolerated: &[String],
    crash_tolerated: &[String],
    agg: &mut WorkerResult,
    sup: &mut Supervisor,
) -> Value {
    let id = p.id();
    let runs: u64 = std::env::var("VERIF_FUZZ_RUNS").ok().and_then(|s| s.parse().ok()).unwrap_or_else(|| p.fuzz_runs(opts.tier));
    if runs == 0 || !crate::fuzzing::fuzzable(id) {
        return Value::Null;
    }
    let bindir = std::env::var("VERIF_FUZZ_BIN_DIR")
        .map(PathBuf::from)
        .unwrap_or_else(|_| Path::new(VERIF_ROOT.as_str()).join("work/target-fuzz/x86_64-unknown-linux-gnu/release"));
    let mut targets = vec!["prop"];
    if id == "C03" || id == "C20" {
        targets.push("raw_doc");
    }
    // VERIF_FUZZ_TARGETS=raw_doc: only the named targets (sensitivity measurements)
    if let Ok(only) = std::env::var("VERIF_FUZZ_TARGETS") {
        targets.retain(|t| only.split(',').any(|o| o == *t));
    }
    let mut out = vec![];
    for target in targets {
        let bin = bindir.join(target);
        if !bin.exists() {
            sup.inconclusive.push(format!("fuzz target {} is not built ({})", target, bin.display()));
            continue;
        }
        let dir = work_dir(id).join(format!("fuzz-{}", target));
        let _ = std::fs::remove_dir_all(&dir);
        let corpus = dir.join("corpus");
        std::fs::create_dir_all(&corpus).expect("fuzz corpus dir");
        let max_len: usize = if target == "raw_doc" { 2048 } else { 4096 };
        // the byte-level C20 case costs about a tenth of a millisecond (no generator, no server):
        // it gets 10 times the runs of the structured target (more brings little: with a corpus of
        // several thousand files shared by 16 jobs the rate falls from 8 000 to 2 000 cases a second)
        let runs = if target == "raw_doc" && id == "C20" { runs * 10 } else { runs };
        // starting corpus: pseudo-random files of several lengths (libFuzzer ramps lengths slowly
        // from an empty corpus); for the raw target also a few Markdown snippets
        let mut x = hash64(format!("{}-{}-{}", id, target, opts.seed).as_bytes()) | 1;
        for i in 0..32usize {
            let len = [64, 256, 1024, max_len][i % 4];
            let mut buf = Vec::with_capacity(len + 8);
            while buf.len() < len {
                x ^= x << 13;
                x ^= x >> 7;
                x ^= x << 17;
                buf.extend_from_slice(&x.wrapping_mul(0x2545F4914F6CDD1D).to_le_bytes());
            }
            buf.truncate(len);
            let _ = std::fs::write(corpus.join(format!("seed-{:02}", i)), &buf);
        }
        if target == "raw_doc" {
            for (i, snip) in RAW_SNIPPETS.iter().enumerate() {
                let _ = std::fs::write(corpus.join(format!("md-{:02}", i)), snip.as_bytes());
            }
            if id == "C20" {
                // header (flags, op count, ops) + several snippets cut by 0xFF: a history over versions
                for i in 0..RAW_SNIPPETS.len() {
                    let mut buf: Vec<u8> = vec![i as u8, 5, 0, 0, 0, 3, 8, 1, 0, 4, 6, 0, 9, 1, 5, 2, 0, 1];
                    for j in 0..6 {
                        buf.extend_from_slice(RAW_SNIPPETS[(i + j) % RAW_SNIPPETS.len()].as_bytes());
                        if j % 2 == 0 {
                            buf.extend_from_slice(b"\n[a](a)\n\n- [b](d/b)\n\n| t | u |\n|---|---|\n| 1 | 2 |\n\nafter table [x](../a)\n");
                        }
                        buf.push(0xFF);
                    }
                    let _ = std::fs::write(corpus.join(format!("lib-{:02}", i)), &buf);
                }
            }
        }
        let cfg = crate::fuzzing::FuzzCfg {
            id: id.to_string(),
            tier: opts.tier,
            features: features.clone(),
            tolerated: strict_tolerated.to_vec(),
            dir: dir.to_string_lossy().to_string(),
        };
        let cfg_path = dir.join("cfg.json");
        std::fs::write(&cfg_path, serde_json::to_vec(&cfg).unwrap()).unwrap();
        let jobs = 16u64;
        let started = Instant::now();
        let mut children = vec![];
        for j in 0..jobs {
            let log = std::fs::File::create(dir.join(format!("job-{}.log", j))).unwrap();
            let child = Command::new(&bin)
                .arg(&corpus)
                .arg(format!("-runs={}", runs))
                .arg(format!("-seed={}", opts.seed * 64 + j + 1))
                .arg(format!("-max_len={}", max_len))
                .arg("-len_control=0")
                .arg("-timeout=120")
                .arg("-rss_limit_mb=4096")
                .arg(format!("-artifact_prefix={}/", dir.display()))
                .env("VERIF_FUZZ_CFG", &cfg_path)
                .env("VERIF_QUIET_PANICS", "1")
                .env("RAYON_NUM_THREADS", "2")
                .current_dir(&dir)
                .stdout(Stdio::null())
                .stderr(Stdio::from(log))
                .spawn();
            match child {
                Ok(c) => children.push(c),
                Err(e) => sup.inconclusive.push(format!("cannot start fuzz target {}: {}", target, e)),
            }
        }
        // fixed work per job; the wall-clock bound only catches a stuck campaign
        let budget = Duration::from_secs(1500 + runs / 4);
        for mut c in children {
            loop {
                match c.try_wait() {
                    Ok(Some(_)) => break,
                    Ok(None) => {
                        if started.elapsed() > budget {
                            let pid = c.id();
                            let _ = c.kill();
                            let _ = c.wait();
                            // the case it was running is not a case it died on
                            let _ = std::fs::remove_file(dir.join(format!("current-{}.json", pid)));
                            sup.inconclusive.push(format!("fuzz job of {} exceeded its wall-clock bound and was stopped", target));
                            break;
                        }
                        std::thread::sleep(Duration::from_millis(100));
                    }
                    Err(_) => break,
                }
            }
        }
        // counters
        let mut tot: BTreeMap<String, u64> = BTreeMap::new();
        let mut found_files = vec![];
        let mut journals = vec![];
        if let Ok(rd) = std::fs::read_dir(&dir) {
            for e in rd.flatten() {
                let name = e.file_name().to_string_lossy().to_string();
                if name.starts_with("stats-") {
                    if let Some(v) = std::fs::read(e.path()).ok().and_then(|b| serde_json::from_slice::<Value>(&b).ok()) {
                        if let Some(o) = v.as_object() {
                            for (k, n) in o {
                                *tot.entry(k.clone()).or_insert(0) += n.as_u64().unwrap_or(0);
                            }
                        }
                    }
                } else if name.starts_with("current-") {
                    journals.push(e.path());
                }
            }
        }
        if let Ok(rd) = std::fs::read_dir(dir.join("found")) {
            for e in rd.flatten() {
                let name = e.file_name().to_string_lossy().to_string();
                if name.ends_with(".json") && !name.ends_with(".shrunk.json") {
                    found_files.push(e.path());
                }
            }
        }
        found_files.sort();
        journals.sort();
        let corpus_size = std::fs::read_dir(&corpus).map(|r| r.count()).unwrap_or(0);
        let mut confirmed = 0u64;
        for f in &found_files {
            match isolate_case(id, f, Duration::from_secs(120)) {
                Isolated::Verdict(Verdict::Fail { sig, detail }) => {
                    if strict_tolerated.iter().any(|pat| sig_matches(pat, &sig)) {
                        continue;
                    }
                    confirmed += 1;
                    // shrink through the strategy (the fuzzer does not shrink); fall back to the case as found
                    let bin = f.with_extension("bin");
                    let shrunk_path = f.with_extension("shrunk.json");
                    let mut reported = false;
                    if target == "prop" && bin.exists() && confirmed <= 3 {
                        let st = Command::new(std::env::current_exe().expect("current_exe"))
                            .arg("fuzzshrink")
                            .arg(id)
                            .arg(&cfg_path)
                            .arg(&bin)
                            .arg(&sig)
                            .arg(&shrunk_path)
                            .env("VERIF_QUIET_PANICS", "1")
                            .stdout(Stdio::null())
                            .stderr(Stdio::null())
                            .status();
                        if matches!(st, Ok(s) if s.success()) {
                            if let Ok(v) = std::fs::read(&shrunk_path).map_err(|e| e.to_string()).and_then(|b| serde_json::from_slice::<Value>(&b).map_err(|e| e.to_string())) {
                                let case = v.get("case").cloned().unwrap_or(Value::Null);
                                let d = v.get("detail").and_then(|d| d.as_str()).unwrap_or("").to_string();
                                let path = write_replay(id, &case, &sig, &d);
                                sup.violations.push((sig.clone(), path, format!("(found by the coverage-guided phase, target {}, shrunk through the strategy)\n{}", target, d)));
                                reported = true;
                            }
                        }
                    }
                    if !reported {
                        if let Ok(case) = load_replay_case(f) {
                            let path = write_replay(id, &case, &sig, &detail);
                            sup.violations.push((sig, path, format!("(found by the coverage-guided phase, target {})\n{}", target, detail)));
                        }
                    }
                }
                Isolated::Crashed { status, stderr_tail } => {
                    let sig = crash_signature(&stderr_tail, &status);
                    if crash_tolerated.iter().any(|pat| sig_matches(pat, &sig)) {
                        *agg.excluded_known.entry(sig).or_insert(0) += 1;
                    } else if let Ok(case) = load_replay_case(f) {
                        confirmed += 1;
                        let path = write_replay(id, &case, &sig, &stderr_tail);
                        sup.violations.push((sig, path, stderr_tail));
                    }
                }
                Isolated::TimedOut => sup.inconclusive.push(format!("fuzz-found case {} times out in isolation", f.display())),
                Isolated::Verdict(_) => sup.inconclusive.push(format!(
                    "the fuzz target reported {} but the case passes in an isolated process of the normal engine",
                    f.display()
                )),
            }
        }
        for j in &journals {
            // a job died (crash, libFuzzer timeout, OOM) while running this case
            let status = "fuzz job died".to_string();
            let tail = String::new();
            let before = sup.violations.len();
            handle_crash(p, id, j, &status, &tail, crash_tolerated, agg, sup);
            if p.hang_is_violation() {
                // handle_crash files a hang as inconclusive; for C03 / C17 it is the property
                if let Some(pos) = sup.inconclusive.iter().position(|l| l.contains("hangs in isolation")) {
                    sup.inconclusive.remove(pos);
                    let sig = "hang|watchdog".to_string();
                    if !crash_tolerated.iter().any(|pat| sig_matches(pat, &sig)) {
                        let case: Value = std::fs::read(j.with_extension("crash.json")).ok().and_then(|b| serde_json::from_slice(&b).ok()).unwrap_or(Value::Null);
                        let path = write_replay(id, &case, &sig, "case still running after 120 s in isolation");
                        sup.violations.push((sig, path, "hang".into()));
                    }
                }
            }
            confirmed += (sup.violations.len() - before) as u64;
        }
        out.push(json!({
            "target": target,
            "engine": if target == "raw_doc" {
                "libFuzzer (cargo-fuzz 0.13, -O, no sanitizer), bytes are the note text(s) themselves (lossy UTF-8, no generator); oracle in target"
            } else {
                "libFuzzer (cargo-fuzz 0.13, -O, no sanitizer), bytes -> proptest strategy via pass-through RNG; oracle in target"
            },
            "jobs": jobs,
            "runs_per_job": runs,
            "executions": tot.get("execs").cloned().unwrap_or(0),
            "nontrivial_executions": tot.get("nontrivial").cloned().unwrap_or(0),
            "discards": tot.get("discards").cloned().unwrap_or(0),
            "tolerated": tot.get("tolerated").cloned().unwrap_or(0),
            "corpus_files_at_end": corpus_size,
            "reported_by_target": found_files.len(),
            "jobs_died_on_a_case": journals.len(),
            "confirmed_violations": confirmed,
            "wall_s": started.elapsed().as_secs_f64(),
        }));
        agg.evaluations += tot.get("execs").cloned().unwrap_or(0);
        agg.discards += tot.get("discards").cloned().unwrap_or(0);
    }
    Value::Array(out)
}

const RAW_SNIPPETS: &[&str] = &[
    "# title\n\ntext [link](other) more\n\n- item\n  - nested\n\n> quote\n",
    "---\nkey: value\n---\n\n# a\n\n## b\n\n[ref](other)\n\n| a | b |\n|---|---|\n| 1 | 2 |\n",
    "1. one\n2. two\n\n   para\n\n```rust\ncode\n```\n\n[[other]] and [[other|text]]\n",
    "- [x] task\n- * inner\n\n***\n\nsetext\n======\n\n<div>html</div>\n\n![img](pic.png)\n",
    "> - q\n>   1. n\n>\n> ```\n> c\n> ```\n\n\\* escaped \\_ text &amp; entity <b>inline</b>\n",
];

fn tail_file(p: &Path, n: usize) -> String {
    let s = std::fs::read_to_string(p).unwrap_or_default();
    let lines: Vec<&str> = s.lines().collect();
    let start = lines.len().saturating_sub(n);
    lines[start..].join("\n")
}

fn merge_result(agg: &mut WorkerResult, hashes: &mut BTreeSet<u64>, r: &WorkerResult) {
    for (k, v) in &r.survey {
        let e = agg.survey.entry(k.clone()).or_insert((0, usize::MAX, Value::Null, String::new()));
        e.0 += v.0;
        if v.1 < e.1 {
            e.1 = v.1;
            e.2 = v.2.clone();
            e.3 = v.3.clone();
        }
    }
    agg.evaluations += r.evaluations;
    agg.discards += r.discards;
    for (k, v) in &r.discard_reasons {
        *agg.discard_reasons.entry(k.clone()).or_insert(0) += v;
    }
    for h in &r.nontrivial_hashes {
        hashes.insert(*h);
    }
    agg.stats.merge(&r.stats);
    for (k, v) in &r.excluded_known {
        *agg.excluded_known.entry(k.clone()).or_insert(0) += v;
    }
    for s in &r.samples {
        if agg.samples.len() < 5 {
            agg.samples.push(s.clone());
        }
    }
}

fn handle_crash<P: Property>(
    _p: &P,
    id: &str,
    journal: &Path,
    status: &str,
    stderr_tail: &str,
    tolerated: &[String],
    agg: &mut WorkerResult,
    sup: &mut Supervisor,
) {
    if !journal.exists() {
        sup.inconclusive.push(format!(
            "worker died ({}) without a journaled case: {}",
            status,
            stderr_tail.replace('\n', " / ")
        ));
        return;
    }
    let saved = journal.with_extension("crash.json");
    let _ = std::fs::copy(journal, &saved);
    match isolate_case(id, &saved, Duration::from_secs(120)) {
        Isolated::Crashed { status, stderr_tail } => {
            let sig = crash_signature(&stderr_tail, &status);
            if let Some(pat) = tolerated.iter().find(|pat| sig_matches(pat, &sig)) {
                *agg.excluded_known.entry(pat.clone()).or_insert(0) += 1;
                agg.evaluations += 1;
            } else {
                let case: Value = std::fs::read(&saved)
                    .ok()
                    .and_then(|b| serde_json::from_slice(&b).ok())
                    .unwrap_or(Value::Null);
                let path = write_replay(id, &case, &sig, &stderr_tail);
                sup.violations.push((sig, path, stderr_tail));
            }
        }
        Isolated::Verdict(Verdict::Fail { sig, detail }) => {
            // the isolated re-run judges with every feature on (no domain exclusions): any active
            // known finding of this property may show up here
            let any_known: Vec<String> = load_known()
                .into_iter()
                .filter(|k| k.status == "known" && k.properties.iter().any(|q| q == id))
                .flat_map(|k| k.signatures)
                .collect();
            if let Some(pat) = tolerated.iter().chain(any_known.iter()).find(|pat| sig_matches(pat, &sig)) {
                *agg.excluded_known.entry(pat.clone()).or_insert(0) += 1;
            } else {
                let case: Value = std::fs::read(&saved)
                    .ok()
                    .and_then(|b| serde_json::from_slice(&b).ok())
                    .unwrap_or(Value::Null);
                let path = write_replay(id, &case, &sig, &detail);
                sup.violations.push((sig, path, detail));
            }
        }
        Isolated::Verdict(_) => {
            sup.inconclusive.push(format!(
                "worker died ({}) but its journaled case passes in isolation: {}",
                status,
                stderr_tail.replace('\n', " / ")
            ));
        }
        Isolated::TimedOut => {
            sup.inconclusive.push("worker died and its journaled case hangs in isolation".into());
        }
    }
}

/// `vcheck replay <ID> <file>`: strict re-judgement of one saved case. Exit code 0/1.
pub fn replay<P: Property>(p: &P, file: &Path) -> i32 {
    let case = match load_replay_case(file) {
        Ok(c) => c,
        Err(e) => {
            println!("cannot load replay: {}", e);
            return 2;
        }
    };
    let tmp = work_dir(p.id()).join("replay.case.json");
    std::fs::write(&tmp, serde_json::to_vec(&case).unwrap()).unwrap();
    match isolate_case(p.id(), &tmp, Duration::from_secs(300)) {
        Isolated::Verdict(Verdict::Pass { nontrivial }) => {
            println!("replay passes (nontrivial={})", nontrivial);
            0
        }
        Isolated::Verdict(Verdict::Discard(r)) => {
            println!("replay discarded: {}", r);
            0
        }
        Isolated::Verdict(Verdict::Fail { sig, detail }) => {
            println!("VIOLATION property={} replay={}", p.id(), file.display());
            println!("  signature: {}", sig);
            for l in detail.lines() {
                println!("  | {}", l);
            }
            1
        }
        Isolated::Crashed { status, stderr_tail } => {
            println!("VIOLATION property={} replay={}", p.id(), file.display());
            println!("  signature: {}", crash_signature(&stderr_tail, &status));
            println!("  | {}", stderr_tail.replace('\n', "\n  | "));
            1
        }
        Isolated::TimedOut => {
            println!("replay timed out (300 s)");
            if p.hang_is_violation() {
                println!("VIOLATION property={} replay={}", p.id(), file.display());
                1
            } else {
                2
            }
        }
    }
}

/// Helper so strategies can be boxed uniformly.
pub fn boxed<S: Strategy + 'static>(s: S) -> BoxedStrategy<S::Value> {
    s.boxed()
}
