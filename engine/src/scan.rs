//! Independent scanner: pulldown-cmark offset events -> own block tree with byte spans.
//! Shares only pulldown-cmark with iwe (none of iwe's reader/builder/projector/writer code).

use pulldown_cmark::{CodeBlockKind, Event, LinkType, Options, Parser, Tag, TagEnd};
use serde::{Deserialize, Serialize};
use std::ops::Range;

#[derive(Clone, Debug, PartialEq, Eq, PartialOrd, Ord, Serialize, Deserialize)]
pub enum LinkKind {
    Regular,
    Autolink,
    Wiki,
    WikiPiped,
}

#[derive(Clone, Debug, PartialEq, Serialize, Deserialize)]
pub enum SInline {
    Text(String),
    Code(String),
    Html(String),
    SoftBreak,
    HardBreak,
    Emph(Vec<SInline>),
    Strong(Vec<SInline>),
    Strike(Vec<SInline>),
    Link {
        kind: LinkKind,
        dest: String,
        title: String,
        children: Vec<SInline>,
        span: (usize, usize),
    },
    Image {
        dest: String,
        title: String,
        children: Vec<SInline>,
        span: (usize, usize),
    },
    Other(String),
}

#[derive(Clone, Debug, PartialEq, Serialize, Deserialize)]
pub enum BKind {
    Heading(u8),
    Para,
    Code { lang: String, fenced: bool },
    Quote,
    List { ordered: bool, start: u64 },
    Item,
    Table,
    TableHead,
    TableRow,
    TableCell,
    Rule,
    Html,
    Other(String),
}

#[derive(Clone, Debug, PartialEq, Serialize, Deserialize)]
pub struct SBlock {
    pub kind: BKind,
    pub span: (usize, usize),
    pub children: Vec<SBlock>,
    pub inlines: Vec<SInline>,
    /// code body / html text
    pub text: String,
    /// paragraph synthesised for a tight list item (pulldown emits inlines directly in the item)
    pub implicit: bool,
}

impl SBlock {
    fn new(kind: BKind, span: Range<usize>) -> SBlock {
        SBlock {
            kind,
            span: (span.start, span.end),
            children: vec![],
            inlines: vec![],
            text: String::new(),
            implicit: false,
        }
    }
}

#[derive(Clone, Debug, PartialEq, Serialize, Deserialize)]
pub struct Scan {
    pub metadata: Option<String>,
    pub blocks: Vec<SBlock>,
    /// a backslash escape of a punctuation character stands in running text (outside code blocks,
    /// code spans, raw HTML and tables): the domain of the escaping finding, judged on the source
    #[serde(default)]
    pub backslash_escape_in_text: bool,
}

pub fn options() -> Options {
    Options::ENABLE_YAML_STYLE_METADATA_BLOCKS | Options::ENABLE_WIKILINKS | Options::ENABLE_TABLES
}

enum Frame {
    Block(SBlock),
    Inline(SInline),
}

pub fn scan(text: &str) -> Scan {
    let mut stack: Vec<Frame> = vec![];
    let mut out: Vec<SBlock> = vec![];
    let mut metadata: Option<String> = None;
    let mut in_meta = false;
    // byte ranges whose content is taken verbatim (code spans, inline HTML; code and HTML blocks are added at the end)
    let mut verbatim: Vec<(usize, usize)> = vec![];

    fn close_implicit(stack: &mut Vec<Frame>, out: &mut Vec<SBlock>) {
        // if top is an implicit paragraph, pop it into its parent
        let is_implicit = matches!(stack.last(), Some(Frame::Block(b)) if b.implicit);
        if is_implicit {
            if let Some(Frame::Block(b)) = stack.pop() {
                attach_block(stack, out, b);
            }
        }
    }

    fn attach_block(stack: &mut Vec<Frame>, out: &mut Vec<SBlock>, b: SBlock) {
        // find nearest block frame
        for f in stack.iter_mut().rev() {
            if let Frame::Block(parent) = f {
                parent.children.push(b);
                return;
            }
        }
        out.push(b);
    }

    fn push_inline(stack: &mut Vec<Frame>, inl: SInline, span: &Range<usize>) {
        // inline directly inside an Item (tight list) => synthesise a paragraph
        let need_implicit = matches!(stack.last(), Some(Frame::Block(b)) if matches!(b.kind, BKind::Item | BKind::Quote));
        if need_implicit {
            let mut p = SBlock::new(BKind::Para, span.clone());
            p.implicit = true;
            stack.push(Frame::Block(p));
        }
        match stack.last_mut() {
            Some(Frame::Inline(parent)) => match parent {
                SInline::Emph(c) | SInline::Strong(c) | SInline::Strike(c) => c.push(inl),
                SInline::Link { children, .. } | SInline::Image { children, .. } => children.push(inl),
                _ => {}
            },
            Some(Frame::Block(b)) => {
                if b.implicit {
                    b.span.1 = b.span.1.max(span.end);
                }
                b.inlines.push(inl)
            }
            None => {}
        }
    }

    for (event, range) in Parser::new_ext(text, options()).into_offset_iter() {
        match event {
            Event::Start(tag) => match tag {
                Tag::Paragraph => {
                    close_implicit(&mut stack, &mut out);
                    stack.push(Frame::Block(SBlock::new(BKind::Para, range)))
                }
                Tag::Heading { level, .. } => {
                    close_implicit(&mut stack, &mut out);
                    stack.push(Frame::Block(SBlock::new(BKind::Heading(level as u8), range)))
                }
                Tag::BlockQuote(_) => {
                    close_implicit(&mut stack, &mut out);
                    stack.push(Frame::Block(SBlock::new(BKind::Quote, range)))
                }
                Tag::CodeBlock(kind) => {
                    close_implicit(&mut stack, &mut out);
                    let (lang, fenced) = match kind {
                        CodeBlockKind::Fenced(l) => (l.to_string(), true),
                        CodeBlockKind::Indented => (String::new(), false),
                    };
                    stack.push(Frame::Block(SBlock::new(BKind::Code { lang, fenced }, range)))
                }
                Tag::HtmlBlock => {
                    close_implicit(&mut stack, &mut out);
                    stack.push(Frame::Block(SBlock::new(BKind::Html, range)))
                }
                Tag::List(start) => {
                    close_implicit(&mut stack, &mut out);
                    stack.push(Frame::Block(SBlock::new(
                        BKind::List {
                            ordered: start.is_some(),
                            start: start.unwrap_or(0),
                        },
                        range,
                    )))
                }
                Tag::Item => stack.push(Frame::Block(SBlock::new(BKind::Item, range))),
                Tag::Table(_) => {
                    close_implicit(&mut stack, &mut out);
                    stack.push(Frame::Block(SBlock::new(BKind::Table, range)))
                }
                Tag::TableHead => stack.push(Frame::Block(SBlock::new(BKind::TableHead, range))),
                Tag::TableRow => stack.push(Frame::Block(SBlock::new(BKind::TableRow, range))),
                Tag::TableCell => stack.push(Frame::Block(SBlock::new(BKind::TableCell, range))),
                Tag::Emphasis => {
                    ensure_para(&mut stack, &range);
                    stack.push(Frame::Inline(SInline::Emph(vec![])))
                }
                Tag::Strong => {
                    ensure_para(&mut stack, &range);
                    stack.push(Frame::Inline(SInline::Strong(vec![])))
                }
                Tag::Strikethrough => {
                    ensure_para(&mut stack, &range);
                    stack.push(Frame::Inline(SInline::Strike(vec![])))
                }
                Tag::Link {
                    link_type,
                    dest_url,
                    title,
                    ..
                } => {
                    ensure_para(&mut stack, &range);
                    let kind = match link_type {
                        LinkType::WikiLink { has_pothole: true } => LinkKind::WikiPiped,
                        LinkType::WikiLink { has_pothole: false } => LinkKind::Wiki,
                        LinkType::Autolink | LinkType::Email => LinkKind::Autolink,
                        _ => LinkKind::Regular,
                    };
                    stack.push(Frame::Inline(SInline::Link {
                        kind,
                        dest: dest_url.to_string(),
                        title: title.to_string(),
                        children: vec![],
                        span: (range.start, range.end),
                    }))
                }
                Tag::Image { dest_url, title, .. } => {
                    ensure_para(&mut stack, &range);
                    stack.push(Frame::Inline(SInline::Image {
                        dest: dest_url.to_string(),
                        title: title.to_string(),
                        children: vec![],
                        span: (range.start, range.end),
                    }))
                }
                Tag::MetadataBlock(_) => in_meta = true,
                other => {
                    close_implicit(&mut stack, &mut out);
                    stack.push(Frame::Block(SBlock::new(BKind::Other(format!("{:?}", other)), range)))
                }
            },
            Event::End(tag) => match tag {
                TagEnd::MetadataBlock(_) => in_meta = false,
                TagEnd::Emphasis | TagEnd::Strong | TagEnd::Strikethrough | TagEnd::Link | TagEnd::Image => {
                    if let Some(Frame::Inline(inl)) = stack.pop() {
                        push_inline(&mut stack, inl, &range);
                    }
                }
                _ => {
                    // block end; first close a dangling implicit paragraph
                    let closing_is_container = matches!(tag, TagEnd::Item | TagEnd::BlockQuote(_));
                    if closing_is_container {
                        close_implicit(&mut stack, &mut out);
                    }
                    if let Some(Frame::Block(b)) = stack.pop() {
                        attach_block(&mut stack, &mut out, b);
                    }
                }
            },
            Event::Text(t) => {
                if in_meta {
                    let mut m = metadata.take().unwrap_or_default();
                    m.push_str(&t);
                    metadata = Some(m);
                    continue;
                }
                match stack.last_mut() {
                    Some(Frame::Block(b)) if matches!(b.kind, BKind::Code { .. } | BKind::Html) => {
                        b.text.push_str(&t);
                    }
                    _ => push_inline(&mut stack, SInline::Text(t.to_string()), &range),
                }
            }
            Event::Code(t) => {
                verbatim.push((range.start, range.end));
                push_inline(&mut stack, SInline::Code(t.to_string()), &range)
            }
            Event::Html(t) => match stack.last_mut() {
                Some(Frame::Block(b)) if matches!(b.kind, BKind::Html) => b.text.push_str(&t),
                _ => {
                    close_implicit(&mut stack, &mut out);
                    let mut b = SBlock::new(BKind::Html, range);
                    b.text = t.to_string();
                    attach_block(&mut stack, &mut out, b);
                }
            },
            Event::InlineHtml(t) => {
                verbatim.push((range.start, range.end));
                push_inline(&mut stack, SInline::Html(t.to_string()), &range)
            }
            Event::SoftBreak => push_inline(&mut stack, SInline::SoftBreak, &range),
            Event::HardBreak => push_inline(&mut stack, SInline::HardBreak, &range),
            Event::Rule => {
                close_implicit(&mut stack, &mut out);
                let b = SBlock::new(BKind::Rule, range);
                attach_block(&mut stack, &mut out, b);
            }
            Event::InlineMath(t) | Event::DisplayMath(t) => {
                push_inline(&mut stack, SInline::Other(format!("math:{}", t)), &range)
            }
            Event::FootnoteReference(t) => {
                push_inline(&mut stack, SInline::Other(format!("fn:{}", t)), &range)
            }
            Event::TaskListMarker(b) => push_inline(&mut stack, SInline::Other(format!("task:{}", b)), &range),
        }
    }
    // drain (balanced events => should be empty)
    while let Some(f) = stack.pop() {
        if let Frame::Block(b) = f {
            attach_block(&mut stack, &mut out, b);
        }
    }
    // backslash + ASCII punctuation outside verbatim regions
    fn collect_verbatim(bs: &[SBlock], v: &mut Vec<(usize, usize)>) {
        for b in bs {
            // (escapes inside table cells are written back escaped by the table writer: they are
            // not part of the escaping finding)
            if matches!(b.kind, BKind::Code { .. } | BKind::Html | BKind::Table) {
                v.push(b.span);
            }
            collect_verbatim(&b.children, v);
        }
    }
    collect_verbatim(&out, &mut verbatim);
    let bytes = text.as_bytes();
    let mut escape = false;
    for i in 0..bytes.len().saturating_sub(1) {
        if bytes[i] == b'\\' && bytes[i + 1].is_ascii_punctuation() && !verbatim.iter().any(|(a, z)| *a <= i && i < *z) {
            escape = true;
            break;
        }
    }
    Scan { metadata, blocks: out, backslash_escape_in_text: escape }
}

fn ensure_para(stack: &mut Vec<Frame>, span: &Range<usize>) {
    let need_implicit = matches!(stack.last(), Some(Frame::Block(b)) if matches!(b.kind, BKind::Item | BKind::Quote));
    if need_implicit {
        let mut p = SBlock::new(BKind::Para, span.clone());
        p.implicit = true;
        stack.push(Frame::Block(p));
    }
}

// ---------------------------------------------------------------------------------------------
// helpers over the scan
// ---------------------------------------------------------------------------------------------

pub fn plain_text(inl: &[SInline]) -> String {
    let mut s = String::new();
    for i in inl {
        match i {
            SInline::Text(t) | SInline::Code(t) | SInline::Html(t) => s.push_str(t),
            SInline::SoftBreak | SInline::HardBreak => s.push(' '),
            SInline::Emph(c) | SInline::Strong(c) | SInline::Strike(c) => s.push_str(&plain_text(c)),
            SInline::Link { children, .. } | SInline::Image { children, .. } => s.push_str(&plain_text(children)),
            SInline::Other(t) => s.push_str(t),
        }
    }
    s
}

pub fn collapse_ws(s: &str) -> String {
    s.split_whitespace().collect::<Vec<_>>().join(" ")
}

/// All links (depth-first, document order) of an inline sequence.
pub fn links_of<'a>(inl: &'a [SInline], out: &mut Vec<&'a SInline>) {
    for i in inl {
        match i {
            SInline::Link { children, .. } => {
                out.push(i);
                links_of(children, out);
            }
            SInline::Image { children, .. } => {
                out.push(i);
                links_of(children, out);
            }
            SInline::Emph(c) | SInline::Strong(c) | SInline::Strike(c) => links_of(c, out),
            _ => {}
        }
    }
}

/// Depth-first walk over all blocks.
pub fn walk<'a>(blocks: &'a [SBlock], f: &mut dyn FnMut(&'a SBlock, &[&'a SBlock])) {
    fn rec<'a>(b: &'a SBlock, path: &mut Vec<&'a SBlock>, f: &mut dyn FnMut(&'a SBlock, &[&'a SBlock])) {
        f(b, path);
        path.push(b);
        for c in &b.children {
            rec(c, path, f);
        }
        path.pop();
    }
    let mut path = vec![];
    for b in blocks {
        rec(b, &mut path, f);
    }
}

pub fn is_ref_url(url: &str) -> bool {
    let l = url.to_lowercase();
    !(l.starts_with("http://") || l.starts_with("https://") || l.starts_with("mailto:"))
}

// ---------------------------------------------------------------------------------------------
// line table (own implementation; LF and CRLF aware; UTF-16 columns)
// ---------------------------------------------------------------------------------------------

pub struct Lines {
    /// byte offset of each line start
    pub starts: Vec<usize>,
    pub len: usize,
}

impl Lines {
    pub fn new(text: &str) -> Lines {
        let mut starts = vec![0];
        let bytes = text.as_bytes();
        for (i, b) in bytes.iter().enumerate() {
            if *b == b'\n' {
                starts.push(i + 1);
            }
        }
        Lines {
            starts,
            len: text.len(),
        }
    }
    pub fn line_of(&self, offset: usize) -> usize {
        match self.starts.binary_search(&offset) {
            Ok(i) => i,
            Err(i) => i - 1,
        }
    }
    /// (line, utf16 column)
    pub fn position(&self, text: &str, offset: usize) -> (usize, usize) {
        let line = self.line_of(offset);
        let start = self.starts[line];
        let col = text[start..offset].encode_utf16().count();
        (line, col)
    }
    pub fn line_count(&self) -> usize {
        self.starts.len()
    }
}

