//! Reference models computed from independent scans of the library's texts.

use crate::drive::api::Lib;
use crate::pathalg;
use crate::scan::*;
use std::collections::{BTreeMap, BTreeSet};

#[derive(Clone, Debug, PartialEq, Eq, PartialOrd, Ord)]
pub struct LinkOcc {
    pub owner: String,
    /// first line of the innermost block that holds the link
    pub line: usize,
    /// resolved target key
    pub target: String,
    /// true when the block is a block reference (a paragraph that is exactly one internal link and
    /// is not the lead paragraph of a list item)
    pub block_ref: bool,
    pub kind: LinkKind,
    pub in_quote: bool,
    pub in_item: bool,
    pub in_table: bool,
    pub raw_dest: String,
    pub text: String,
}

fn collect(
    owner: &str,
    text: &str,
    lines: &Lines,
    blocks: &[SBlock],
    parent_is_item: bool,
    in_quote: bool,
    in_table: bool,
    out: &mut Vec<LinkOcc>,
) {
    collect_in(owner, text, lines, blocks, parent_is_item, in_quote, in_table, parent_is_item, out)
}

#[allow(clippy::too_many_arguments)]
fn collect_in(
    owner: &str,
    text: &str,
    lines: &Lines,
    blocks: &[SBlock],
    parent_is_item: bool,
    in_quote: bool,
    in_table: bool,
    in_item: bool,
    out: &mut Vec<LinkOcc>,
) {
    let dir = pathalg::dir_of(owner);
    for (idx, b) in blocks.iter().enumerate() {
        let mut ls = vec![];
        links_of(&b.inlines, &mut ls);
        let lead = parent_is_item && idx == 0;
        let is_block_ref = matches!(b.kind, BKind::Para)
            && !lead
            && !in_table
            && b.inlines.len() == 1
            && matches!(&b.inlines[0], SInline::Link { dest, .. } if is_ref_url(dest));
        for l in ls {
            if let SInline::Link { kind, dest, children, .. } = l {
                if !is_ref_url(dest) {
                    continue;
                }
                out.push(LinkOcc {
                    owner: owner.to_string(),
                    line: lines.line_of(b.span.0),
                    target: pathalg::resolve(&dir, pathalg::strip_md(dest)),
                    block_ref: is_block_ref,
                    kind: kind.clone(),
                    in_quote,
                    in_item,
                    in_table,
                    raw_dest: dest.clone(),
                    text: collapse_ws(&plain_text(children)),
                });
            }
        }
        let _ = text;
        match b.kind {
            BKind::Quote => collect_in(owner, text, lines, &b.children, false, true, in_table, in_item, out),
            BKind::Item => collect_in(owner, text, lines, &b.children, true, in_quote, in_table, true, out),
            BKind::Table | BKind::TableHead | BKind::TableRow => {
                // cells: the linking block is the table
                let mut cells = vec![];
                walk(&b.children, &mut |c, _| {
                    if matches!(c.kind, BKind::TableCell) {
                        cells.push(c);
                    }
                });
                if matches!(b.kind, BKind::Table) {
                    for c in cells {
                        let mut ls = vec![];
                        links_of(&c.inlines, &mut ls);
                        for l in ls {
                            if let SInline::Link { kind, dest, children, .. } = l {
                                if !is_ref_url(dest) {
                                    continue;
                                }
                                out.push(LinkOcc {
                                    owner: owner.to_string(),
                                    line: lines.line_of(b.span.0),
                                    target: pathalg::resolve(&dir, pathalg::strip_md(dest)),
                                    block_ref: false,
                                    kind: kind.clone(),
                                    in_quote,
                                    in_item,
                                    in_table: true,
                                    raw_dest: dest.clone(),
                                    text: collapse_ws(&plain_text(children)),
                                });
                            }
                        }
                    }
                }
            }
            _ => collect_in(owner, text, lines, &b.children, false, in_quote, in_table, in_item, out),
        }
    }
}

pub fn link_occurrences(lib: &Lib) -> Vec<LinkOcc> {
    let mut out = vec![];
    for (k, text) in lib {
        let s = scan(text);
        let lines = Lines::new(text);
        collect(k, text, &lines, &s.blocks, false, false, false, &mut out);
    }
    out
}

/// target -> set of (owner, line) for block references and for inline references
pub fn backlinks(occ: &[LinkOcc]) -> (BTreeMap<String, BTreeSet<(String, usize)>>, BTreeMap<String, BTreeSet<(String, usize)>>) {
    let mut block: BTreeMap<String, BTreeSet<(String, usize)>> = BTreeMap::new();
    let mut inline: BTreeMap<String, BTreeSet<(String, usize)>> = BTreeMap::new();
    for o in occ {
        let m = if o.block_ref { &mut block } else { &mut inline };
        m.entry(o.target.clone()).or_default().insert((o.owner.clone(), o.line));
    }
    (block, inline)
}

/// plain text of the first heading if the note starts with one
/// The first block that is part of the note as iwe reads it: raw HTML blocks are dropped, and so is
/// a quote that holds nothing besides them.
fn first_real_block(blocks: &[SBlock]) -> Option<&SBlock> {
    fn blank(b: &SBlock) -> bool {
        match b.kind {
            BKind::Html => true,
            BKind::Quote => b.children.iter().all(blank),
            _ => false,
        }
    }
    blocks.iter().find(|b| !blank(b))
}

pub fn title_of(text: &str) -> Option<String> {
    let s = scan(text);
    match first_real_block(&s.blocks) {
        Some(b) if matches!(b.kind, BKind::Heading(_)) => Some(plain_text_raw(&b.inlines)),
        _ => None,
    }
}

/// plain text as iwe's title extraction sees it (no whitespace collapsing beyond what the scan gives)
pub fn plain_text_raw(inl: &[SInline]) -> String {
    plain_text(inl)
}

/// Scan-level predicates over a note's title (first heading): does it hold a link (KF-TITLE-LINK)
/// and would its plain text need escaping when written as link text (KF-ESCAPE)?
pub fn title_flags(text: &str) -> (bool, bool) {
    let s = scan(text);
    match first_real_block(&s.blocks) {
        Some(b) if matches!(b.kind, BKind::Heading(_)) => {
            let mut ls = vec![];
            links_of(&b.inlines, &mut ls);
            let has_link = ls.iter().any(|l| matches!(l, SInline::Link { .. }));
            let plain = plain_text(&b.inlines);
            let punct = plain.chars().any(|c| "*_[]`|\\!#()".contains(c)) || plain.contains('<') && b.inlines.iter().any(|i| matches!(i, SInline::Code(_)));
            (has_link, punct)
        }
        _ => (false, false),
    }
}

pub fn lib_domain_discard(lib: &Lib) -> Option<String> {
    use crate::framework::feature_on;
    for text in lib.values() {
        let s = scan(text);
        if let Some(r) = crate::canon::domain_discard(&s) {
            return Some(r);
        }
        let (l, p) = title_flags(text);
        if l && !feature_on("link_in_title") {
            return Some("known-domain: the note's title holds a link".into());
        }
        if p && !feature_on("title_code_punct") {
            return Some("known-domain: the note's title holds Markdown punctuation".into());
        }
    }
    None
}
