pub mod canon;
pub mod drive;
pub mod framework;
pub mod gen;
pub mod model;
pub mod pathalg;
pub mod props;
pub mod scan;
