pub mod doc;
