pub mod doc;
pub mod library;
