//! G-LIB: libraries of notes over directory layouts with cross links in every spelling.

use super::doc::{self, DocCfg, LinkPool};
use crate::framework::Features;
use crate::pathalg;
use proptest::prelude::*;
use serde::{Deserialize, Serialize};

#[derive(Clone, Debug, Serialize, Deserialize)]
pub struct LibCase {
    /// (key, text)
    pub notes: Vec<(String, String)>,
    pub ext: String,
}

impl LibCase {
    pub fn lib(&self) -> crate::drive::api::Lib {
        self.notes.iter().cloned().collect()
    }
}

/// `d-x` and `d/ex/k` start with the characters of a directory (`d`, `d/e`) they are not in: a
/// relative url computed on strings instead of path components goes wrong exactly there.
pub const KEY_POOL: &[&str] = &["a", "b", "c", "d/a", "d/b", "d/e/f", "g/a", "d/e/b", "h", "d/v1.2", "2024.01.15", "d-x", "d/ex/k"];
pub const MISSING: &[&str] = &["zz", "d/zz"];
pub const EXTERNAL: &[&str] = &["https://example.com/p1", "http://example.org/a/b", "mailto:someone@example.com"];

/// All spellings (without extension) of a link to `key` written in a note that lives in `dir`.
pub fn spellings(features: &Features, dir: &str, key: &str) -> Vec<String> {
    let rel = pathalg::relative(dir, key);
    let mut out = vec![rel.clone()];
    if features.on("dest_dot_slash") {
        out.push(format!("./{}", rel));
    }
    if !dir.is_empty() && features.on("dest_via_root") {
        let ups: Vec<&str> = dir.split('/').map(|_| "..").collect();
        out.push(format!("{}/{}", ups.join("/"), key));
    }
    out
}

pub fn pools(features: &Features, own: &str, keys: &[String]) -> (LinkPool, LinkPool) {
    let dir = pathalg::dir_of(own);
    let mut targets: Vec<String> = keys.to_vec();
    if features.on("missing_target") {
        targets.extend(MISSING.iter().map(|s| s.to_string()));
    }
    let mut block_internal = vec![];
    for t in &targets {
        if t == own && !features.on("self_link") {
            continue;
        }
        // a destination that needs ".." is its own feature for block references
        for s in spellings(features, &dir, t) {
            if s.contains("..") && !features.on("block_ref_dotdot") {
                continue;
            }
            block_internal.push(s);
        }
    }
    let external: Vec<String> = EXTERNAL.iter().map(|s| s.to_string()).collect();
    // inline links: iwe keys them by their raw url (known finding), so outside that finding's
    // domain they are generated only where raw url == key: notes in the root directory, plain spelling
    let mut inline_internal = vec![];
    if !features.on("inline_internal_link") {
        // no internal links in running text at all (only block references and external links)
    } else if dir.is_empty() {
        for t in &targets {
            if t == own && !features.on("self_link") {
                continue;
            }
            inline_internal.push(t.clone());
            if features.on("inline_link_dotted") {
                inline_internal.push(format!("./{}", t));
            }
        }
    } else if features.on("inline_link_in_subdir") {
        for t in &targets {
            inline_internal.extend(spellings(features, &dir, t));
        }
    }
    (
        LinkPool { internal: block_internal, external: external.clone() },
        LinkPool { internal: inline_internal, external },
    )
}

pub fn library(features: &Features, max_notes: usize, max_blocks: usize) -> BoxedStrategy<LibCase> {
    library_w(features, max_notes, max_blocks, 3)
}

pub fn library_w(features: &Features, max_notes: usize, max_blocks: usize, block_ref_weight: u32) -> BoxedStrategy<LibCase> {
    let features = features.clone();
    let pool: Vec<String> = KEY_POOL
        .iter()
        .filter(|k| features.on("subdirs") || !k.contains('/'))
        .map(|s| s.to_string())
        .collect();
    let n = max_notes.min(pool.len());
    proptest::sample::subsequence(pool, 1..=n)
        .prop_flat_map(move |keys| {
            let mut docs: Vec<BoxedStrategy<String>> = vec![];
            for (i, k) in keys.iter().enumerate() {
                let (bp, ip) = pools(&features, k, &keys);
                let mut cfg = DocCfg::new(&features);
                cfg.pool = bp;
                cfg.inline_pool = Some(ip);
                cfg.max_blocks = max_blocks;
                cfg.depth = 2;
                cfg.title_p = 0.75;
                cfg.block_ref_weight = block_ref_weight;
                cfg.number_from = (i as u32 + 1) * 1000;
                docs.push(doc::text(&cfg));
            }
            (Just(keys), docs, prop_oneof![Just(String::new()), Just(".md".to_string())])
        })
        .prop_map(|(keys, texts, ext)| LibCase {
            notes: keys.into_iter().zip(texts.into_iter()).collect(),
            ext,
        })
        .boxed()
}

/// A library in which every note comes in several generated versions (for edit histories).
#[derive(Clone, Debug, Serialize, Deserialize)]
pub struct LibVersions {
    /// (key, versions)
    pub notes: Vec<(String, Vec<String>)>,
    pub ext: String,
}

pub fn library_versions(features: &Features, max_notes: usize, max_blocks: usize, versions: usize) -> BoxedStrategy<LibVersions> {
    let features = features.clone();
    let pool: Vec<String> = KEY_POOL
        .iter()
        .filter(|k| features.on("subdirs") || !k.contains('/'))
        .map(|s| s.to_string())
        .collect();
    let n = max_notes.min(pool.len());
    proptest::sample::subsequence(pool, 2..=n.max(2))
        .prop_flat_map(move |keys| {
            let mut docs: Vec<BoxedStrategy<Vec<String>>> = vec![];
            for (i, k) in keys.iter().enumerate() {
                let (bp, ip) = pools(&features, k, &keys);
                let mut vs: Vec<BoxedStrategy<String>> = vec![];
                for v in 0..versions {
                    let mut cfg = DocCfg::new(&features);
                    cfg.pool = bp.clone();
                    cfg.inline_pool = Some(ip.clone());
                    cfg.max_blocks = max_blocks;
                    cfg.depth = 2;
                    cfg.title_p = 0.7;
                    cfg.number_from = (i as u32 + 1) * 1000 + (v as u32) * 300;
                    vs.push(doc::text(&cfg));
                }
                docs.push(vs.boxed());
            }
            (Just(keys), docs, prop_oneof![Just(String::new()), Just(".md".to_string())])
        })
        .prop_map(|(keys, texts, ext)| LibVersions {
            notes: keys.into_iter().zip(texts.into_iter()).collect(),
            ext,
        })
        .boxed()
}
