//! G-DOC: document AST, proptest strategy, renderer (RENDER: presentation choices are part of the AST).

use crate::framework::Features;
use proptest::collection::vec;
use proptest::prelude::*;
use serde::{Deserialize, Serialize};

#[derive(Clone, Debug, Serialize, Deserialize)]
pub enum Inl {
    /// word: (alphabet kind, unique number assigned in a post pass)
    W(u8, u32),
    Emph(Vec<Inl>, bool),   // bool: underscore flavour
    Strong(Vec<Inl>, bool),
    Code(String),
    /// kind: 0 inline, 1 wiki, 2 piped wiki, 3 autolink, 4 reference-style
    Link { kind: u8, dest: String, text: Vec<Inl>, title: Option<String> },
    Image { dest: String, alt: Vec<Inl> },
    Html(String),
    Soft,
    Hard(bool), // true: backslash form
    /// literal punctuation written with a backslash escape
    Esc(char),
    /// raw hostile fragment (C03 only)
    Raw(String),
}

#[derive(Clone, Debug, Serialize, Deserialize)]
pub enum Blk {
    Head { level: u8, setext: bool, closing: u8, inl: Vec<Inl> },
    Para(Vec<Inl>),
    Code { fenced: bool, tilde: bool, flen: u8, lang: String, lines: Vec<String> },
    Quote(Vec<Blk>),
    List { ordered: bool, start: u32, paren: bool, bullet: u8, loose: bool, pad: u8, same_num: bool, items: Vec<Vec<Blk>> },
    Table { aligns: Vec<u8>, head: Vec<Vec<Inl>>, rows: Vec<Vec<Vec<Inl>>>, outer_pipes: bool },
    Rule(u8),
    Html(Vec<Inl>),
    /// block reference: paragraph that is exactly one link
    Ref(Inl),
}

#[derive(Clone, Debug, Serialize, Deserialize)]
pub struct Doc {
    pub front: Option<Vec<(u8, u32)>>,
    pub blocks: Vec<Blk>,
    pub crlf: bool,
    pub trailing_nl: u8,
    pub leading_blank: u8,
    pub gap: u8,
    /// no blank line between a paragraph and a fenced code block next to it (a fence may
    /// interrupt a paragraph, and text may follow a closing fence directly)
    pub glue_fence: bool,
}

/// Destinations a generated link may use.
#[derive(Clone, Debug)]
pub struct LinkPool {
    pub internal: Vec<String>,
    pub external: Vec<String>,
}

impl LinkPool {
    pub fn standalone() -> LinkPool {
        LinkPool {
            internal: vec!["n1".into(), "n2".into(), "n3".into(), "sub/n4".into(), "n5".into()],
            external: vec![
                "https://example.com/p1".into(),
                "http://example.org/a/b".into(),
                "mailto:someone@example.com".into(),
            ],
        }
    }
}

const BASES: &[&str] = &["w", "Zq", "\u{e9}t", "\u{436}", "\u{4e2d}", "\u{1d4b3}", "k9x", "\u{fc}b", "\u{1f600}"];

pub fn word_text(kind: u8, n: u32) -> String {
    format!("{}{}", BASES[(kind as usize) % BASES.len()], n)
}

const HOSTILE: &[&str] = &[
    "*", "_", "`", "[", "]", "(", ")", "|", "#", "<", ">", "\\", "![", "]]", "[[", "$", "~", "\t", "\u{2028}",
    "\u{0}", "\u{feff}", "&amp;", "&#x41;", "---", "===", "1.", "-", "+", "%", "\u{e9}", "\u{1f600}", "**", "__",
    "``", "<!--", "-->", "<div>", "</div>", "[x]", "[^1]", "://", "www.", ":", "\"", "'", "{", "}", "=", "    ",
    "\u{a0}", "\u{200b}", "\r", "]: ", "](", ")[", "|-", "-|", ":-:", "~~", "^", "\u{301}",
];

// ---------------------------------------------------------------------------------------------
// strategies
// ---------------------------------------------------------------------------------------------

#[derive(Clone, Debug)]
pub struct DocCfg {
    pub features: Features,
    pub pool: LinkPool,
    pub max_blocks: usize,
    pub depth: u32,
    pub hostile: bool,
    /// destinations for links inside running text; `None` = same as `pool`
    pub inline_pool: Option<LinkPool>,
    /// probability that the note starts with a level-1 heading (its title)
    pub title_p: f64,
    /// first word number (unique tokens across a library)
    pub number_from: u32,
    /// weight of block references among the leaf blocks
    pub block_ref_weight: u32,
    /// rewrite top-level heading levels so that they start at 1 and never skip a level
    pub force_wellnested: bool,
}

impl DocCfg {
    pub fn new(features: &Features) -> DocCfg {
        DocCfg {
            features: features.clone(),
            pool: LinkPool::standalone(),
            max_blocks: 8,
            depth: 3,
            hostile: false,
            inline_pool: None,
            title_p: 0.0,
            number_from: 0,
            block_ref_weight: 3,
            force_wellnested: false,
        }
    }
    fn on(&self, f: &str) -> bool {
        self.features.on(f)
    }
}

fn opt_if<T: std::fmt::Debug + Clone + 'static>(on: bool, p: f64, s: BoxedStrategy<T>) -> BoxedStrategy<Option<T>> {
    if on {
        proptest::option::weighted(p, s).boxed()
    } else {
        Just(None).boxed()
    }
}

fn word() -> impl Strategy<Value = Inl> {
    (0u8..(BASES.len() as u8)).prop_map(|k| Inl::W(k, 0))
}

fn words(min: usize, max: usize) -> impl Strategy<Value = Vec<Inl>> {
    vec(word(), min..=max)
}

fn code_span_text_plain() -> impl Strategy<Value = String> {
    "[a-z]{1,6}"
}

fn code_span_text() -> impl Strategy<Value = String> {
    // no backticks; no leading/trailing space; may contain markdown punctuation (literal inside code)
    prop_oneof![
        "[a-z]{1,6}",
        "[a-z]{1,4}\\([a-z]{0,3}\\)",
        "[a-z]{1,3}\\*[a-z]{1,3}",
        "[a-z]{1,3}_[a-z]{1,3}",
        "<[a-z]{1,4}>",
        "\\[[a-z]{1,3}\\]",
    ]
}

fn dest(cfg: &DocCfg, internal_only: bool) -> BoxedStrategy<String> {
    let ints = cfg.pool.internal.clone();
    let exts = cfg.pool.external.clone();
    if ints.is_empty() {
        if exts.is_empty() {
            return Just("nowhere".to_string()).boxed();
        }
        return proptest::sample::select(exts).boxed();
    }
    let md = cfg.on("dest_md_suffix");
    // (no prop_flat_map here or below: every flat_map forks proptest's RNG, which halves a
    // pass-through byte stream - see fuzzing.rs)
    let int = (proptest::sample::select(ints), 0u8..5).prop_map(move |(d, w)| if md && w == 0 { format!("{}.md", d) } else { d });
    if internal_only || exts.is_empty() {
        int.boxed()
    } else {
        prop_oneof![4 => int, 1 => proptest::sample::select(exts)].boxed()
    }
}

fn link(cfg: &DocCfg) -> BoxedStrategy<Inl> {
    let mut opts: Vec<(u32, BoxedStrategy<Inl>)> = vec![];
    // inline link
    let title_on = cfg.on("link_title");
    let wrap = cfg.on("break_in_link_text") && cfg.on("softbreak");
    opts.push((
        6,
        (dest(cfg, false), words(1, 3), opt_if(title_on, 0.15, "[a-z]{1,5}".boxed()), 0u8..6)
            .prop_map(move |(d, mut t, title, w)| {
                // a link text wrapped over two lines
                if wrap && w == 0 && t.len() >= 2 {
                    t.insert(1, Inl::Soft);
                }
                Inl::Link { kind: 0, dest: d, text: t, title }
            })
            .boxed(),
    ));
    if cfg.on("wiki") {
        opts.push((2, dest(cfg, true).prop_map(|d| Inl::Link { kind: 1, dest: d, text: vec![], title: None }).boxed()));
        if cfg.on("wiki_piped") {
            opts.push((
                2,
                (dest(cfg, true), words(1, 2))
                    .prop_map(|(d, t)| Inl::Link { kind: 2, dest: d, text: t, title: None })
                    .boxed(),
            ));
        }
    }
    if cfg.on("autolink") && !cfg.pool.external.is_empty() {
        let exts: Vec<String> = cfg.pool.external.iter().filter(|e| e.starts_with("http")).cloned().collect();
        if !exts.is_empty() {
            opts.push((
                1,
                proptest::sample::select(exts)
                    .prop_map(|d| Inl::Link { kind: 3, dest: d, text: vec![], title: None })
                    .boxed(),
            ));
        }
    }
    if cfg.on("refdef") {
        opts.push((
            1,
            (dest(cfg, false), words(1, 2))
                .prop_map(|(d, t)| Inl::Link { kind: 4, dest: d, text: t, title: None })
                .boxed(),
        ));
    }
    proptest::strategy::Union::new_weighted(opts).boxed()
}

fn inline_atom(cfg: &DocCfg) -> BoxedStrategy<Inl> {
    let mut opts: Vec<(u32, BoxedStrategy<Inl>)> = vec![(10, word().boxed())];
    if cfg.on("emph") {
        opts.push((2, (words(1, 3), any::<bool>()).prop_map(|(w, u)| Inl::Emph(w, u)).boxed()));
        opts.push((2, (words(1, 3), any::<bool>()).prop_map(|(w, u)| Inl::Strong(w, u)).boxed()));
    }
    if cfg.on("code_span") {
        if cfg.on("code_span_punct") {
            opts.push((2, code_span_text().prop_map(Inl::Code).boxed()));
        } else {
            opts.push((2, code_span_text_plain().prop_map(Inl::Code).boxed()));
        }
    }
    if cfg.on("link") {
        let mut icfg = cfg.clone();
        if let Some(p) = &cfg.inline_pool {
            icfg.pool = p.clone();
        }
        if !cfg.on("wiki_inline") {
            icfg.features.off.insert("wiki".into());
        }
        if !icfg.pool.internal.is_empty() || !icfg.pool.external.is_empty() {
            opts.push((3, link(&icfg)));
        }
    }
    if cfg.on("image") {
        let mut icfg = cfg.clone();
        if let Some(p) = &cfg.inline_pool {
            icfg.pool = p.clone();
        }
        if !icfg.pool.internal.is_empty() {
            opts.push((
                1,
                (dest(&icfg, false), words(0, 2)).prop_map(|(d, a)| Inl::Image { dest: d, alt: a }).boxed(),
            ));
        }
    }
    if cfg.on("inline_html") {
        opts.push((1, prop_oneof![Just("<b>"), Just("</b>"), Just("<br/>"), Just("<span class=\"x\">")].prop_map(|s| Inl::Html(s.to_string())).boxed()));
    }
    if cfg.on("escape") {
        let mut chars = vec!['*', '_', '#', '[', ']', '`', '<', '|', '!'];
        if cfg.on("escape_backslash") {
            chars.push('\\');
        }
        opts.push((1, proptest::sample::select(chars).prop_map(Inl::Esc).boxed()));
    }
    if cfg.hostile {
        opts.push((6, proptest::sample::select(HOSTILE.to_vec()).prop_map(|s| Inl::Raw(s.to_string())).boxed()));
    }
    proptest::strategy::Union::new_weighted(opts).boxed()
}

/// inline sequence; `breaks`: allow soft/hard breaks between atoms
fn inlines(cfg: &DocCfg, breaks: bool, max: usize) -> BoxedStrategy<Vec<Inl>> {
    let soft = breaks && cfg.on("softbreak");
    let hard = breaks && cfg.on("hardbreak");
    let atom = inline_atom(cfg);
    vec((atom, 0u8..20, any::<bool>()), 1..=max)
        .prop_map(move |parts| {
            let mut out = vec![];
            let n = parts.len();
            // a line that starts with an HTML tag is an HTML block, not a paragraph
            if matches!(parts.first(), Some((Inl::Html(_), _, _))) {
                out.push(Inl::W(0, 0));
            }
            for (i, (a, brk, form)) in parts.into_iter().enumerate() {
                out.push(a);
                if i + 1 < n {
                    if soft && brk < 4 {
                        out.push(Inl::Soft);
                    } else if hard && brk == 4 {
                        out.push(Inl::Hard(form));
                    }
                }
            }
            out
        })
        .boxed()
}

fn code_line(hostile: bool) -> BoxedStrategy<String> {
    if hostile {
        prop_oneof!["[ -~]{0,20}", Just(String::new()), Just("```".to_string()), Just("\t\u{0}".to_string())].boxed()
    } else {
        // printable ASCII without backtick and tilde; leading spaces allowed
        prop_oneof![
            6 => "[ ]{0,4}[a-zA-Z0-9#*_\\-+=<>\\[\\]()|.:;,!?/\\\\\"'$%&@^{}]{1,12}( [a-zA-Z0-9#*_<>|]{1,6}){0,3}",
            1 => Just(String::new()),
        ]
        .boxed()
    }
}

fn leaf_block(cfg: &DocCfg, ctx: &str) -> BoxedStrategy<Blk> {
    let on = |k: &str| cfg.on(k) && (ctx == "top" || cfg.on(&format!("{}_in_{}", k, ctx)));
    let mut opts: Vec<(u32, BoxedStrategy<Blk>)> = vec![];
    opts.push((8, inlines(cfg, true, 7).prop_map(Blk::Para).boxed()));
    if on("heading") {
        let setext_on = cfg.on("setext");
        // heading texts become link texts (extracted references, titles), written without escaping
        let mut hcfg = cfg.clone();
        if !cfg.on("heading_punct") {
            hcfg.features.off.insert("code_span_punct".into());
        }
        let cfg = &hcfg;
        opts.push((
            5,
            (1u8..=6, any::<bool>(), 0u8..4, inlines(cfg, false, 4))
                .prop_map(move |(level, setext, closing, inl)| Blk::Head {
                    level,
                    setext: setext && setext_on && level <= 2,
                    closing: if closing == 3 { 2 } else { 0 },
                    inl,
                })
                .boxed(),
        ));
    }
    if on("code") {
        let indented_on = cfg.on("indented_code");
        let lang_on = cfg.on("code_lang");
        let fence_lines_on = cfg.on("code_fence_in_body") && !cfg.hostile;
        opts.push((
            3,
            (
                any::<bool>(),
                any::<bool>(),
                3u8..=5,
                prop_oneof![3 => Just(String::new()), 2 => "[a-z]{1,6}", 1 => "[a-z]{1,4} [a-z]{1,4}"],
                vec(code_line(cfg.hostile), 1..5),
                0u8..8,
                // a body line that looks like a fence (also indented by up to three spaces, which
                // would still close a fence of the same kind)
                opt_if(fence_lines_on, 0.12, (0usize..4, 3usize..6, 0u8..3).boxed()),
            )
                .prop_map(move |(tilde, _x, flen, lang, mut lines, ind, fence_line)| {
                    let mut tilde = tilde;
                    let mut fenced = !(indented_on && ind == 0);
                    if let Some((indent, run, at)) = fence_line {
                        // the block itself is then fenced with tildes, so that the body is what the
                        // source says it is
                        tilde = true;
                        fenced = true;
                        let line = format!("{}{}", " ".repeat(indent), "`".repeat(run));
                        let pos = (at as usize).min(lines.len());
                        lines.insert(pos, line);
                    }
                    Blk::Code { fenced, tilde, flen, lang: if lang_on { lang } else { String::new() }, lines }
                })
                .boxed(),
        ));
    }
    if on("rule") {
        opts.push((2, (0u8..4).prop_map(Blk::Rule).boxed()));
    }
    if on("table") {
        let mut cell_cfg = cfg.clone();
        if !cfg.on("link_in_table") {
            cell_cfg.features.off.insert("link".into());
        }
        // the pipe of a piped wiki link would end the cell: not a table any more
        cell_cfg.features.off.insert("wiki_piped".into());
        if !cfg.on("wiki_in_table") {
            cell_cfg.features.off.insert("wiki".into());
        }
        // the table writer escapes literal punctuation itself: escapes in cells are a separate feature
        if cfg.on("escape_in_table") {
            cell_cfg.features.off.remove("escape");
            if !cfg.on("escape_backslash_in_table") {
                cell_cfg.features.off.insert("escape_backslash".into());
            }
        } else {
            cell_cfg.features.off.insert("escape".into());
        }
        let cell = inlines(&cell_cfg, false, 2);
        let empty_cell = cfg.on("empty_cell");
        let cell = if empty_cell {
            prop_oneof![9 => cell, 1 => Just(vec![])].boxed()
        } else {
            cell
        };
        let ragged = cfg.on("ragged_table");
        opts.push((
            2,
            (
                1usize..4,
                any::<bool>(),
                vec(0u8..4, 3),
                vec(cell.clone(), 3),
                vec((vec(cell.clone(), 4), 0u8..3), 0..4),
            )
                .prop_map(move |(cols, outer, mut aligns, mut head, rows, )| {
                    aligns.truncate(cols);
                    head.truncate(cols);
                    let rows: Vec<Vec<Vec<Inl>>> = rows
                        .into_iter()
                        .map(|(mut row, r)| {
                            let len = if ragged { (cols + r as usize).saturating_sub(1).max(1) } else { cols };
                            row.truncate(len);
                            row
                        })
                        .collect();
                    (aligns, head, rows, outer)
                })
                .prop_map(|(aligns, head, rows, outer)| Blk::Table { aligns, head, rows, outer_pipes: outer || true })
                .boxed(),
        ));
    }
    if on("html_block") {
        opts.push((1, words(1, 3).prop_map(Blk::Html).boxed()));
    }
    if on("block_ref") && cfg.on("link") {
        opts.push((cfg.block_ref_weight, link(cfg).prop_map(Blk::Ref).boxed()));
    }
    proptest::strategy::Union::new_weighted(opts).boxed()
}

fn item_blocks(cfg: &DocCfg, inner: BoxedStrategy<Blk>) -> BoxedStrategy<Vec<Blk>> {
    // strict: an item starts with a paragraph. Other first blocks are behind features:
    //   item_first_block: code / quote / table / rule first (known finding: panics the section builder)
    //   item_first_list, item_first_heading, empty_item: restructurings the properties allow (C07 quantifier)
    // (the lead text of a tight item is not wrapped in a paragraph: a line break inside it is a
    // feature of its own, see KF-TIGHT-ITEM-MULTILINE)
    let mut lead_cfg = cfg.clone();
    if !cfg.on("break_in_item_lead") {
        lead_cfg.features.off.insert("break_in_link_text".into());
    }
    let para = inlines(&lead_cfg, cfg.on("break_in_item_lead"), 5).prop_map(Blk::Para).boxed();
    let mut firsts: Vec<(u32, BoxedStrategy<Blk>)> = vec![(12, para.clone())];
    if cfg.on("item_first_block") {
        firsts.push((
            2,
            prop_oneof![
                vec(code_line(false), 1..3).prop_map(|lines| Blk::Code { fenced: true, tilde: false, flen: 3, lang: String::new(), lines }),
                words(1, 2).prop_map(|w| Blk::Quote(vec![Blk::Para(w)])),
                words(1, 1).prop_map(|w| Blk::Table { aligns: vec![0], head: vec![w], rows: vec![], outer_pipes: true }),
                Just(Blk::Rule(2)),
            ]
            .boxed(),
        ));
    }
    if cfg.on("item_first_list") {
        firsts.push((
            1,
            (any::<bool>(), vec(words(1, 2).prop_map(|w| vec![Blk::Para(w)]), 1..3))
                .prop_map(|(ordered, items)| Blk::List { ordered, start: 1, paren: false, bullet: 1, loose: false, pad: 1, same_num: false, items })
                .boxed(),
        ));
    }
    if cfg.on("item_first_heading") {
        firsts.push((1, (1u8..4, words(1, 2)).prop_map(|(level, inl)| Blk::Head { level, setext: false, closing: 0, inl }).boxed()));
    }
    let first = proptest::strategy::Union::new_weighted(firsts).boxed();
    let rest = vec(inner, 0..3);
    let s = (first, rest).prop_map(|(f, mut r)| {
        let mut v = vec![f];
        v.append(&mut r);
        v
    });
    if cfg.on("empty_item") {
        prop_oneof![12 => s, 1 => Just(vec![])].boxed()
    } else {
        s.boxed()
    }
}

pub fn block_in(cfg: &DocCfg, ctx: &'static str, depth: u32) -> BoxedStrategy<Blk> {
    let leaf = leaf_block(cfg, ctx);
    if depth == 0 {
        return leaf;
    }
    let on = |k: &str| cfg.on(k) && (ctx == "top" || cfg.on(&format!("{}_in_{}", k, ctx)));
    let mut opts: Vec<(u32, BoxedStrategy<Blk>)> = vec![(8, leaf)];
    if on("list") {
        let mut icfg = cfg.clone();
        if !cfg.on("link_in_item") {
            icfg.features.off.insert("link".into());
        }
        let inner = block_in(&icfg, "item", depth - 1);
        let items = vec(item_blocks(&icfg, inner), 1..5);
        opts.push((
            3,
            (any::<bool>(), prop_oneof![3 => Just(1u32), 1 => 0u32..30, 1 => 7u32..200], any::<bool>(), 0u8..3, any::<bool>(), 1u8..=3, any::<bool>(), items)
                .prop_map(|(ordered, start, paren, bullet, loose, pad, same_num, items)| Blk::List {
                    ordered,
                    start,
                    paren,
                    bullet,
                    loose,
                    pad,
                    same_num,
                    items,
                })
                .boxed(),
        ));
    }
    if on("quote") {
        let mut qcfg = cfg.clone();
        if !cfg.on("link_in_quote") {
            qcfg.features.off.insert("link".into());
        }
        let cfg = &qcfg;
        let inner = block_in(cfg, "quote", depth - 1);
        if cfg.on("empty_quote") {
            // a lone '>' line: a quote that holds nothing
            opts.push((1, prop_oneof![14 => vec(inner, 1..4), 1 => Just(vec![])].prop_map(Blk::Quote).boxed()));
        } else {
            opts.push((1, vec(inner, 1..4).prop_map(Blk::Quote).boxed()));
        }
    }
    proptest::strategy::Union::new_weighted(opts).boxed()
}

pub fn block(cfg: &DocCfg) -> BoxedStrategy<Blk> {
    block_in(cfg, "top", cfg.depth)
}

fn separate_lists(bs: &mut Vec<Blk>, keep_apart: bool) {
    // Two lists of the same kind that end up adjacent in the output are one list to any Markdown
    // reader; raw HTML blocks between them are dropped by iwe, and an indented code block after a
    // list belongs to the last item. `keep_apart` keeps adjacent lists out of the domain (known
    // finding); an indented code block after a list is always written fenced, because it would
    // not be a code block.
    let mut i = 0;
    let mut last: Option<bool> = None; // ordered flag of the last non-html block if it is a list
    while i < bs.len() {
        match &mut bs[i] {
            Blk::Quote(inner) => separate_lists(inner, keep_apart),
            Blk::List { items, .. } => items.iter_mut().for_each(|it| separate_lists(it, keep_apart)),
            _ => {}
        }
        match &mut bs[i] {
            Blk::Html(_) => {}
            Blk::List { items, .. } if items.iter().all(|it| it.is_empty()) => {}
            Blk::List { ordered, .. } => {
                let o = *ordered;
                if keep_apart && last == Some(o) {
                    bs.insert(i, Blk::Para(vec![Inl::W(0, 0)]));
                    i += 1;
                }
                last = Some(o);
            }
            Blk::Code { fenced, .. } => {
                if last.is_some() {
                    *fenced = true;
                }
                last = None;
            }
            _ => last = None,
        }
        i += 1;
    }
}

/// `---` below a block quote opens a YAML metadata block in pulldown (and is hoisted to the top of
/// the note by iwe); outside the known-finding domain such rules are spelled `***`.
fn no_dash_rule_in_quote(bs: &mut Vec<Blk>, in_quote: bool) {
    for b in bs.iter_mut() {
        match b {
            Blk::Quote(inner) => no_dash_rule_in_quote(inner, true),
            Blk::List { items, .. } => items.iter_mut().for_each(|it| no_dash_rule_in_quote(it, in_quote)),
            Blk::Rule(k) if in_quote && (*k % 4 == 0) => *k = 1,
            _ => {}
        }
    }
}

pub fn doc(cfg: &DocCfg) -> BoxedStrategy<Doc> {
    let dash_rule_in_quote = cfg.on("dash_rule_in_quote");
    let adjacent_lists = cfg.on("adjacent_lists");
    let glue_on = cfg.on("glue_fence");
    let no_trailing_nl = cfg.on("no_trailing_newline");
    let front_on = cfg.on("front_matter");
    let crlf_on = cfg.on("crlf");
    let many_lists = cfg.on("long_list");
    let blocks = vec(block(cfg), 0..=cfg.max_blocks);
    let title_p = cfg.title_p;
    let start_no = cfg.number_from;
    let wellnested = cfg.force_wellnested;
    let title: BoxedStrategy<Option<Blk>> = if title_p > 0.0 {
        let mut tcfg = cfg.clone();
        if !cfg.on("link_in_title") {
            tcfg.features.off.insert("link".into());
        }
        // the title becomes link text in other notes, written without escaping (KF-ESCAPE)
        if !cfg.on("title_code_punct") {
            tcfg.features.off.insert("code_span_punct".into());
        }
        proptest::option::weighted(title_p, inlines(&tcfg, false, 3).prop_map(|inl| Blk::Head { level: 1, setext: false, closing: 0, inl })).boxed()
    } else {
        Just(None).boxed()
    };
    let long_list: BoxedStrategy<Option<Blk>> = if many_lists {
        let mut cfg = cfg.clone();
        if !cfg.on("break_in_item_lead") {
            cfg.features.off.insert("break_in_link_text".into());
        }
        proptest::option::weighted(
            0.08,
            (any::<bool>(), any::<bool>(), prop_oneof![20 => vec(inlines(&cfg, false, 2).prop_map(|i| vec![Blk::Para(i)]), 9..17), 1 => vec(inlines(&cfg, false, 1).prop_map(|i| vec![Blk::Para(i)]), 98..104)]).prop_map(move |(ordered, loose, items)| Blk::List {
                ordered,
                start: 1,
                paren: false,
                bullet: 0,
                loose,
                pad: 1,
                same_num: false,
                items,
            }),
        )
        .boxed()
    } else {
        Just(None).boxed()
    };
    (
        opt_if(front_on, 0.15, vec((0u8..4, Just(0u32)), 1..3).boxed()),
        blocks,
        (long_list, title),
        0u8..10,
        0u8..3,
        0u8..6,
        0u8..8,
    )
        .prop_map(move |(front, mut blocks, (long, title), crlf, trailing_nl, leading, gap)| {
            if let Some(t) = title {
                blocks.insert(0, t);
            }
            if let Some(l) = long {
                let pos = blocks.len() / 2;
                blocks.insert(pos, l);
            }
            if wellnested {
                let mut prev = 0u8;
                for b in blocks.iter_mut() {
                    if let Blk::Head { level, setext, .. } = b {
                        let l = (*level).min(prev + 1).max(1);
                        *level = l;
                        if l > 2 {
                            *setext = false;
                        }
                        prev = l;
                    }
                }
            }
            separate_lists(&mut blocks, !adjacent_lists);
            if !dash_rule_in_quote {
                no_dash_rule_in_quote(&mut blocks, false);
            }
            let mut d = Doc {
                front,
                blocks,
                crlf: crlf_on && crlf == 0,
                trailing_nl: if no_trailing_nl { trailing_nl } else { trailing_nl.max(1) },
                leading_blank: if leading == 0 { 1 } else { 0 },
                gap: if gap == 0 { 2 } else { 1 },
                glue_fence: glue_on && (gap == 1 || gap == 2),
            };
            number_from(&mut d, start_no);
            d
        })
        .boxed()
}

// ---------------------------------------------------------------------------------------------
// numbering of unique word tokens
// ---------------------------------------------------------------------------------------------

pub fn number(d: &mut Doc) {
    number_from(d, 0)
}

pub fn number_from(d: &mut Doc, start: u32) {
    let mut n = start;
    if let Some(f) = d.front.as_mut() {
        for (_, c) in f.iter_mut() {
            n += 1;
            *c = n;
        }
    }
    for b in d.blocks.iter_mut() {
        number_blk(b, &mut n);
    }
}

fn number_inl(i: &mut Inl, n: &mut u32) {
    match i {
        Inl::W(_, c) => {
            *n += 1;
            *c = *n;
        }
        Inl::Emph(v, _) | Inl::Strong(v, _) => v.iter_mut().for_each(|x| number_inl(x, n)),
        Inl::Link { text, .. } => text.iter_mut().for_each(|x| number_inl(x, n)),
        Inl::Image { alt, .. } => alt.iter_mut().for_each(|x| number_inl(x, n)),
        _ => {}
    }
}

fn number_blk(b: &mut Blk, n: &mut u32) {
    match b {
        Blk::Head { inl, .. } | Blk::Para(inl) | Blk::Html(inl) => inl.iter_mut().for_each(|x| number_inl(x, n)),
        Blk::Quote(bs) => bs.iter_mut().for_each(|x| number_blk(x, n)),
        Blk::List { items, .. } => items.iter_mut().for_each(|it| it.iter_mut().for_each(|x| number_blk(x, n))),
        Blk::Table { head, rows, .. } => {
            head.iter_mut().for_each(|c| c.iter_mut().for_each(|x| number_inl(x, n)));
            rows.iter_mut()
                .for_each(|r| r.iter_mut().for_each(|c| c.iter_mut().for_each(|x| number_inl(x, n))));
        }
        Blk::Ref(l) => number_inl(l, n),
        Blk::Code { .. } | Blk::Rule(_) => {}
    }
}

// ---------------------------------------------------------------------------------------------
// renderer
// ---------------------------------------------------------------------------------------------

struct R {
    refdefs: Vec<(String, String)>,
    glue_fence: bool,
}

fn render_inl(r: &mut R, i: &Inl, out: &mut String) {
    match i {
        Inl::W(k, n) => out.push_str(&word_text(*k, *n)),
        Inl::Emph(v, us) => {
            let m = if *us { "_" } else { "*" };
            out.push_str(m);
            render_seq(r, v, out);
            out.push_str(m);
        }
        Inl::Strong(v, us) => {
            let m = if *us { "__" } else { "**" };
            out.push_str(m);
            render_seq(r, v, out);
            out.push_str(m);
        }
        Inl::Code(t) => {
            out.push('`');
            out.push_str(t);
            out.push('`');
        }
        Inl::Link { kind, dest, text, title } => match kind {
            1 => {
                out.push_str("[[");
                out.push_str(dest);
                out.push_str("]]");
            }
            2 => {
                out.push_str("[[");
                out.push_str(dest);
                out.push('|');
                render_seq(r, text, out);
                out.push_str("]]");
            }
            3 => {
                out.push('<');
                out.push_str(dest);
                out.push('>');
            }
            4 => {
                let label = format!("r{}", r.refdefs.len() + 1);
                out.push('[');
                render_seq(r, text, out);
                out.push_str("][");
                out.push_str(&label);
                out.push(']');
                r.refdefs.push((label, dest.clone()));
            }
            _ => {
                out.push('[');
                render_seq(r, text, out);
                out.push_str("](");
                out.push_str(dest);
                if let Some(t) = title {
                    out.push_str(" \"");
                    out.push_str(t);
                    out.push('"');
                }
                out.push(')');
            }
        },
        Inl::Image { dest, alt } => {
            out.push_str("![");
            render_seq(r, alt, out);
            out.push_str("](");
            out.push_str(dest);
            out.push(')');
        }
        Inl::Html(h) => out.push_str(h),
        Inl::Soft => out.push('\n'),
        Inl::Hard(bs) => out.push_str(if *bs { "\\\n" } else { "  \n" }),
        Inl::Esc(c) => {
            out.push('\\');
            out.push(*c);
        }
        Inl::Raw(s) => out.push_str(s),
    }
}

fn render_seq(r: &mut R, v: &[Inl], out: &mut String) {
    let mut prev_break = true;
    for i in v {
        let is_break = matches!(i, Inl::Soft | Inl::Hard(_));
        if !prev_break && !is_break {
            out.push(' ');
        }
        render_inl(r, i, out);
        prev_break = is_break;
    }
}

fn render_block(r: &mut R, b: &Blk, in_item: bool) -> Vec<String> {
    match b {
        Blk::Head { level, setext, closing, inl } => {
            let mut s = String::new();
            render_seq(r, inl, &mut s);
            let s = s.replace('\n', " ");
            if *setext {
                vec![s, if *level == 1 { "====".into() } else { "----".into() }]
            } else {
                let mut l = format!("{} {}", "#".repeat(*level as usize), s);
                if *closing > 0 {
                    l.push(' ');
                    l.push_str(&"#".repeat(*closing as usize));
                }
                vec![l]
            }
        }
        Blk::Para(inl) => {
            let mut s = String::new();
            render_seq(r, inl, &mut s);
            s.split('\n').map(|x| x.to_string()).collect()
        }
        Blk::Ref(l) => {
            let mut s = String::new();
            render_inl(r, l, &mut s);
            vec![s]
        }
        Blk::Code { fenced, tilde, flen, lang, lines } => {
            if *fenced || in_item {
                let f = if *tilde { "~" } else { "`" }.repeat(*flen as usize);
                let mut v = vec![format!("{}{}", f, lang)];
                v.extend(lines.iter().cloned());
                v.push(f);
                v
            } else {
                // indented code: every line indented by four spaces; blank lines stay blank
                let mut ls: Vec<String> = lines.clone();
                // an indented block cannot start or end with a blank line
                while ls.first().map(|l| l.trim().is_empty()).unwrap_or(false) {
                    ls.remove(0);
                }
                while ls.last().map(|l| l.trim().is_empty()).unwrap_or(false) {
                    ls.pop();
                }
                if ls.is_empty() {
                    ls.push("x".into());
                }
                ls.iter().map(|l| if l.is_empty() { String::new() } else { format!("    {}", l) }).collect()
            }
        }
        Blk::Quote(bs) => {
            let inner = render_blocks(r, bs, 1, false);
            if inner.is_empty() {
                return vec![">".to_string()];
            }
            inner
                .into_iter()
                .map(|l| if l.is_empty() { ">".to_string() } else { format!("> {}", l) })
                .collect()
        }
        Blk::List { ordered, start, paren, bullet, loose, pad, same_num, items } => {
            let mut out = vec![];
            for (i, it) in items.iter().enumerate() {
                let marker = if *ordered {
                    let num = if *same_num { *start } else { start + i as u32 };
                    format!("{}{}", num, if *paren { ")" } else { "." })
                } else {
                    ["-", "*", "+"][(*bullet as usize) % 3].to_string()
                };
                let width = marker.len() + (*pad as usize);
                let body = render_blocks(r, it, 1, true);
                if i > 0 && *loose {
                    out.push(String::new());
                }
                if body.is_empty() {
                    out.push(marker.clone());
                    continue;
                }
                for (j, l) in body.iter().enumerate() {
                    if j == 0 {
                        out.push(format!("{}{}{}", marker, " ".repeat(*pad as usize), l));
                    } else if l.is_empty() {
                        out.push(String::new());
                    } else {
                        out.push(format!("{}{}", " ".repeat(width), l));
                    }
                }
            }
            out
        }
        Blk::Table { aligns, head, rows, .. } => {
            let cell = |r: &mut R, c: &Vec<Inl>| {
                let mut s = String::new();
                render_seq(r, c, &mut s);
                s.replace('\n', " ")
            };
            let mut out = vec![];
            let h: Vec<String> = head.iter().map(|c| cell(r, c)).collect();
            out.push(format!("| {} |", h.join(" | ")));
            let d: Vec<&str> = aligns
                .iter()
                .map(|a| match a % 4 {
                    0 => "---",
                    1 => ":--",
                    2 => ":-:",
                    _ => "--:",
                })
                .collect();
            out.push(format!("| {} |", d.join(" | ")));
            for row in rows {
                let cs: Vec<String> = row.iter().map(|c| cell(r, c)).collect();
                out.push(format!("| {} |", cs.join(" | ")));
            }
            out
        }
        Blk::Rule(k) => vec![["---", "***", "___", "- - -"][(*k as usize) % 4].to_string()],
        Blk::Html(inl) => {
            let mut s = String::new();
            render_seq(r, inl, &mut s);
            vec!["<div>".into(), s.replace('\n', " "), "</div>".into()]
        }
    }
}

fn render_blocks(r: &mut R, bs: &[Blk], gap: usize, in_item: bool) -> Vec<String> {
    let mut out: Vec<String> = vec![];
    for (i, b) in bs.iter().enumerate() {
        if i > 0 {
            // tight nesting: a tight list directly after the item's first paragraph needs no blank line
            let tight_nested = in_item
                && i == 1
                && (matches!(b, Blk::List { loose: false, ordered: false, .. })
                    || matches!(b, Blk::List { loose: false, ordered: true, start: 1, .. }))
                && matches!(bs[0], Blk::Para(_))
                // (an empty item cannot interrupt a paragraph: such a list needs the blank line)
                && !matches!(b, Blk::List { items, .. } if items.first().map_or(true, |it| it.is_empty()));
            let fence = |b: &Blk| matches!(b, Blk::Code { fenced: true, .. });
            let para = |b: &Blk| matches!(b, Blk::Para(_));
            let glued = r.glue_fence && ((fence(&bs[i - 1]) && para(b)) || (para(&bs[i - 1]) && fence(b)));
            if !tight_nested && !glued {
                for _ in 0..gap {
                    out.push(String::new());
                }
            }
        }
        out.extend(render_block(r, b, in_item));
    }
    out
}

pub fn render(d: &Doc) -> String {
    let mut r = R { refdefs: vec![], glue_fence: d.glue_fence };
    let mut lines: Vec<String> = vec![];
    if let Some(f) = &d.front {
        lines.push("---".into());
        for (i, (k, n)) in f.iter().enumerate() {
            lines.push(format!("key{}: {}", i, word_text(*k, *n)));
        }
        lines.push("---".into());
        lines.push(String::new());
    }
    for _ in 0..d.leading_blank {
        lines.push(String::new());
    }
    lines.extend(render_blocks(&mut r, &d.blocks, d.gap as usize, false));
    if !r.refdefs.is_empty() {
        lines.push(String::new());
        for (l, u) in &r.refdefs {
            lines.push(format!("[{}]: {}", l, u));
        }
    }
    let nl = if d.crlf { "\r\n" } else { "\n" };
    let mut s = lines.join(nl);
    for _ in 0..d.trailing_nl {
        s.push_str(nl);
    }
    s
}

/// Strategy for rendered text (shrinks through the AST).
pub fn text(cfg: &DocCfg) -> BoxedStrategy<String> {
    doc(cfg).prop_map(|d| render(&d)).boxed()
}
