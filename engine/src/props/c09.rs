//! C09 — extract and inline refactorings move content without losing or duplicating it.

use super::actions::{self, Tok};
use crate::drive::api::{self, Lib};
use crate::drive::edits::Op;
use crate::drive::lsp::Server;
use crate::framework::*;
use crate::gen::library::{self, LibCase};
use crate::model;
use crate::pathalg;
use crate::scan;
use proptest::prelude::*;
use serde_json::{json, Value};
use std::collections::BTreeMap;

pub struct C09;

pub const KINDS: &[&str] = &[
    "refactor.extract.section",
    "refactor.extract.subsections",
    "refactor.inline.reference.section",
    "refactor.inline.reference.quote",
];

fn own_tokens(text: &str) -> Vec<Tok> {
    actions::tokens(text).into_iter().filter(|t| !t.in_link).collect()
}

/// multiset of (kind, resolved target) of all internal links in a library
fn link_multiset(lib: &Lib) -> BTreeMap<(String, String), i64> {
    let mut m = BTreeMap::new();
    for (k, text) in lib {
        let dir = pathalg::dir_of(k);
        for l in crate::props::c06::links_in_order(text) {
            if l.is_image || !scan::is_ref_url(&l.dest) {
                continue;
            }
            let kind = if l.kind == "Autolink" { "Regular".to_string() } else { l.kind.clone() };
            *m.entry((kind, pathalg::resolve(&dir, pathalg::strip_md(&l.dest)))).or_insert(0) += 1;
        }
    }
    m
}

fn is_subsequence_in_order(seq: &[String], reference_order: &BTreeMap<String, usize>) -> bool {
    let mut last = None;
    for w in seq {
        if let Some(p) = reference_order.get(w) {
            if let Some(l) = last {
                if *p < l {
                    return false;
                }
            }
            last = Some(*p);
        }
    }
    true
}

impl Property for C09 {
    type Case = LibCase;
    fn id(&self) -> &'static str {
        "C09"
    }
    fn rule(&self) -> String {
        "generated libraries (section trees to depth 4, block references incl. dangling and top-level ones, root and sub-directories), brought to normal form first, served with the production key generator; at every line of every note the four actions (extract section, extract sub-sections, inline as section, inline as quote) are requested, each offered one is resolved and its edit applied to a copy; oracle: created keys are unused and distinct; the multiset of word tokens outside link texts over all notes is unchanged and every note keeps the relative order of the tokens it got from each original note; the multiset of (kind, resolved target) of all links is the original plus one reference per extracted section (minus the inlined reference); an extracted note starts with the extracted heading at level 1 and holds exactly the subtree's tokens in order, the source keeps exactly one reference to it, titled with the heading, under the extracted section's parent; inlining deletes the referenced note and puts its tokens under the section that held the reference; extracting a first sub-section and inlining it again (second action requested after didChange) restores the formatted library byte-for-byte; non-trivial = target at depth >= 2, or a subtree with >= 2 block kinds, or a note in a sub-directory".into()
    }
    fn assumptions(&self) -> Vec<String> {
        vec!["new key names are opaque (production generator): only 'unused before' and 'pairwise distinct' are required".into()]
    }
    fn domain_off(&self) -> Vec<&'static str> {
        vec!["crlf", "item_first_list", "item_first_heading", "empty_item", "html_block", "refdef", "link_title", "front_matter", "setext"]
    }
    fn max_shrink_iters(&self) -> u32 {
        300
    }
    /// coverage-guided phase: runs per job, set by what one case costs under instrumentation
    fn fuzz_runs(&self, tier: Tier) -> u64 {
        match tier {
            Tier::Quick => 0,
            Tier::Thorough => 500,
        }
    }
    fn cases(&self, tier: Tier) -> u64 {
        match tier {
            Tier::Quick => 1200,
            Tier::Thorough => 40_000,
        }
    }
    fn strategy(&self, features: &Features, _tier: Tier) -> BoxedStrategy<LibCase> {
        library::library_w(features, 4, 6, 8)
    }
    fn check(&self, case: &LibCase, stats: &mut Stats) -> Verdict {
        let raw = case.lib();
        if let Some(r) = model::lib_domain_discard(&raw) {
            return Verdict::Discard(r);
        }
        for text in raw.values() {
            let o = crate::canon::CanonOpts { dir: String::new(), mask_refreshable: false };
            if !feature_on("adjacent_lists") && crate::canon::has_adjacent_same_lists(&crate::canon::canon(&scan::scan(text), &o).blocks) {
                return Verdict::Discard("known-domain: adjacent lists of the same kind".into());
            }
        }
        if !feature_on("heading_punct") {
            for t in raw.values() {
                if actions::headings(t).iter().any(|(_, _, h)| h.chars().any(|c| "*_[]`|\\!#".contains(c))) {
                    return Verdict::Discard("known-domain: a heading holds Markdown punctuation (becomes link text)".into());
                }
            }
        }
        if !feature_on("self_link") && model::link_occurrences(&raw).iter().any(|o| o.block_ref && o.owner == o.target) {
            return Verdict::Discard("known-domain: a note holds a block reference to itself".into());
        }
        let lib = api::format_library(&raw, &case.ext);
        let mut srv = Server::start(&lib, &case.ext, false, "");
        let mut nontrivial = false;
        let mut done = 0;
        let orig_tokens: BTreeMap<String, Vec<Tok>> = lib.iter().map(|(k, t)| (k.clone(), own_tokens(t))).collect();
        let orig_order: BTreeMap<String, BTreeMap<String, usize>> =
            orig_tokens.iter().map(|(k, v)| (k.clone(), v.iter().enumerate().map(|(i, t)| (t.word.clone(), i)).collect())).collect();
        let all_before: Vec<Tok> = orig_tokens.values().flatten().cloned().collect();
        let links_before = link_multiset(&lib);
        let keys: Vec<String> = lib.keys().cloned().collect();
        for key in &keys {
            let f = lib[key].clone();
            let offers = match actions::offered(&mut srv, key, &f, KINDS) {
                Ok(o) => o,
                Err(e) => {
                    let death = srv.loop_death();
                    srv.kill();
                    if let Some(rec) = death {
                        return Verdict::fail(rec.signature(), format!("server loop died: {} {}", rec.file, rec.message));
                    }
                    return Verdict::fail("c09|offer-error", e);
                }
            };
            for stale in offers.iter().take(24) {
                let fresh = actions::offered_at(&mut srv, key, stale.line, &stale.kind).unwrap_or_default();
                let off = match fresh.into_iter().find(|o| o.kind == stale.kind) {
                    Some(o) => o,
                    None => continue,
                };
                let short = off.kind.trim_start_matches("refactor.").to_string();
                if short.starts_with("inline.reference") && (!feature_on("inline_dangling") || !feature_on("inline_link_in_subdir")) {
                    // known finding KF-INLINE-DANGLING: the action is offered on references whose
                    // target does not exist and (as section) on references outside any section
                    let occ = model::link_occurrences(&lib);
                    let here: Vec<_> = occ.iter().filter(|o| o.owner == *key && o.line == off.line as usize && o.block_ref).collect();
                    let skip_dangling = !feature_on("inline_dangling");
                    let dangling = skip_dangling && here.iter().any(|o| !lib.contains_key(&o.target));
                    let no_section = skip_dangling && short.ends_with("section") && here.iter().any(|o| !o.in_item) && !actions::headings(&f).iter().any(|(l, _, _)| *l < off.line as usize);
                    // content with relative links in running text that moves to another directory:
                    // known finding KF-INLINE-LINK-RAW
                    let crosses = !feature_on("inline_link_in_subdir")
                        && here.iter().any(|o| {
                            pathalg::dir_of(&o.target) != pathalg::dir_of(key) && occ.iter().any(|x| x.owner == o.target && !x.block_ref)
                        });
                    if crosses {
                        stats.class("skipped:inline-moves-relative-links");
                        continue;
                    }
                    if dangling || no_section || (skip_dangling && here.is_empty()) {
                        stats.class("skipped:inline-dangling-or-sectionless");
                        continue;
                    }
                }
                done += 1;
                stats.class(&format!("kind:{}", short));
                let fail = |srv: Server, sig: String, detail: String| {
                    srv.kill();
                    Verdict::fail(sig, detail)
                };
                let head = |after: &Lib| format!("{} ({}) at line {} of {}\n{}", off.kind, off.title, off.line, key, actions::dump(&lib, after));
                // dangling / section-less references: known finding, recognised on the input
                let line_text = f.lines().nth(off.line as usize).unwrap_or("").to_string();
                let ops = match actions::resolve(&mut srv, &off) {
                    Ok(o) => o,
                    Err((s, d)) => return fail(srv, format!("c09|{}", s), format!("{}\nline: {:?}\n{}", d, line_text, head(&lib))),
                };
                let after = match actions::apply(&lib, &ops) {
                    Ok(a) => a,
                    Err((s, d)) => return fail(srv, format!("c09|{}", s), format!("{}\n{}", d, head(&lib))),
                };
                let created: Vec<String> = ops.iter().filter_map(|o| if let Op::Create(k) = o { Some(k.clone()) } else { None }).collect();
                let deleted: Vec<String> = ops.iter().filter_map(|o| if let Op::Delete(k) = o { Some(k.clone()) } else { None }).collect();
                let distinct: std::collections::BTreeSet<&String> = created.iter().collect();
                if distinct.len() != created.len() {
                    return fail(srv, "c09|created-keys-collide".into(), format!("created keys {:?}\n{}", created, head(&after)));
                }
                // (apply() already refuses a create of an existing note)
                // 1. token conservation
                let all_after: Vec<Tok> = after.values().flat_map(|t| own_tokens(t)).collect();
                if actions::multiset(&all_after) != actions::multiset(&all_before) {
                    let (ma, mb) = (actions::multiset(&all_after), actions::multiset(&all_before));
                    let lost: Vec<_> = mb.iter().filter(|(w, c)| ma.get(*w).cloned().unwrap_or(0) < **c).map(|(w, _)| w.clone()).collect();
                    let dup: Vec<_> = ma.iter().filter(|(w, c)| mb.get(*w).cloned().unwrap_or(0) < **c).map(|(w, _)| w.clone()).collect();
                    return fail(srv, format!("c09|{}:{}", short, if !lost.is_empty() { "words-lost" } else { "words-duplicated" }), format!("lost {:?} duplicated {:?}\n{}", lost, dup, head(&after)));
                }
                // 1b. code blocks
                let mut cb: Vec<String> = lib.values().flat_map(|t| actions::code_bodies(t)).collect();
                let mut ca: Vec<String> = after.values().flat_map(|t| actions::code_bodies(t)).collect();
                cb.sort();
                ca.sort();
                if cb != ca {
                    return fail(srv, format!("c09|{}:code-blocks", short), format!("code bodies before {:?}
after {:?}
{}", cb, ca, head(&after)));
                }
                // 2. order per origin
                for (k, t) in &after {
                    let seq: Vec<String> = own_tokens(t).iter().map(|x| x.word.clone()).collect();
                    for (ok, order) in &orig_order {
                        if !is_subsequence_in_order(&seq, order) {
                            return fail(srv, format!("c09|{}:order", short), format!("note {} holds tokens of {} out of their original order: {:?}\n{}", k, ok, seq, head(&after)));
                        }
                    }
                }
                // 3. links
                let mut expected_links = links_before.clone();
                for c in &created {
                    *expected_links.entry(("Regular".into(), c.clone())).or_insert(0) += 1;
                }
                if short.starts_with("inline") {
                    if let Some(d) = deleted.first() {
                        // the reference that was inlined disappears; links of the deleted note move with its content
                        let e = expected_links.entry(("Regular".into(), d.clone())).or_insert(0);
                        *e -= 1;
                    }
                }
                expected_links.retain(|_, v| *v != 0);
                let mut links_after = link_multiset(&after);
                links_after.retain(|_, v| *v != 0);
                // wiki block references to the inlined note count as the removed reference too
                if links_after != expected_links {
                    let mut wiki_ok = false;
                    if short.starts_with("inline") {
                        if let Some(d) = deleted.first() {
                            for kind in ["Wiki", "WikiPiped"] {
                                let mut alt = links_before.clone();
                                *alt.entry((kind.to_string(), d.clone())).or_insert(0) -= 1;
                                alt.retain(|_, v| *v != 0);
                                if alt == links_after {
                                    wiki_ok = true;
                                }
                            }
                        }
                    }
                    if !wiki_ok {
                        return fail(srv, format!("c09|{}:links", short), format!("links after {:?}\nexpected    {:?}\n{}", links_after, expected_links, head(&after)));
                    }
                }
                // inside a block quote the quote has a heading tree of its own: the conservation
                // laws above hold there as everywhere, the structural clauses below are stated
                // (and modelled) for the note's own sections
                if actions::line_in_quote(&f, off.line as usize) {
                    stats.class("in-quote:conservation-only");
                    continue;
                }
                let before_path_of = |line: usize| -> Option<(Vec<String>, String, u8)> {
                    // heading at `line`: (path of ancestors, text, level)
                    let hs = actions::headings(&f);
                    let mut stack: Vec<(u8, String)> = vec![];
                    for (l, lv, t) in hs {
                        while let Some(top) = stack.last() {
                            if top.0 >= lv {
                                stack.pop();
                            } else {
                                break;
                            }
                        }
                        if l == line {
                            return Some((stack.iter().map(|(_, t)| t.clone()).collect(), t, lv));
                        }
                        stack.push((lv, t));
                    }
                    None
                };
                if short == "extract.section" {
                    if created.len() != 1 || !deleted.is_empty() {
                        return fail(srv, "c09|extract:ops".into(), format!("created {:?} deleted {:?}\n{}", created, deleted, head(&after)));
                    }
                    let nk = &created[0];
                    if pathalg::dir_of(nk) != pathalg::dir_of(key) {
                        return fail(srv, "c09|extract:new-key-dir".into(), format!("new note {} is not in the directory of {}\n{}", nk, key, head(&after)));
                    }
                    let (ppath, htext, _) = match before_path_of(off.line as usize) {
                        Some(x) => x,
                        None => return fail(srv, "c09|extract:not-a-heading".into(), format!("extract offered at line {} which is no top-level heading\n{}", off.line, head(&after))),
                    };
                    let nh = actions::headings(&after[nk]);
                    if nh.first().map(|(l, lv, t)| (*l, *lv, t.clone())) != Some((0, 1, htext.clone())) {
                        return fail(srv, "c09|extract:new-note-heading".into(), format!("the new note must start with '# {}': {:?}\n{}", htext, nh.first(), head(&after)));
                    }
                    // subtree tokens = tokens under path ppath+[htext] plus the heading's own
                    let mut sub_path = ppath.clone();
                    sub_path.push(htext.clone());
                    let hline = off.line as usize;
                    let subtree: Vec<String> = orig_tokens[key]
                        .iter()
                        .filter(|t| (t.line == hline) || (t.path.len() >= sub_path.len() && t.path[..sub_path.len()] == sub_path[..] && t.line > hline))
                        .map(|t| t.word.clone())
                        .collect();
                    // (a later section with the same heading text under the same parent would alias: compare as multisets then)
                    let new_seq: Vec<String> = own_tokens(&after[nk]).iter().map(|t| t.word.clone()).collect();
                    let mut a = subtree.clone();
                    let mut b = new_seq.clone();
                    a.sort();
                    b.sort();
                    let dup_heading = actions::headings(&f).iter().filter(|(_, _, t)| *t == htext).count() > 1;
                    if a != b && !dup_heading {
                        return fail(srv, "c09|extract:subtree".into(), format!("the new note holds {:?}, the extracted subtree is {:?}\n{}", new_seq, subtree, head(&after)));
                    }
                    // exactly one reference to the new key in the source, titled with the heading, under the parent
                    let occ = model::link_occurrences(&after);
                    let refs: Vec<_> = occ.iter().filter(|o| o.target == *nk).collect();
                    if refs.len() != 1 || refs[0].owner != *key || !refs[0].block_ref {
                        return fail(srv, "c09|extract:reference-count".into(), format!("references to the new note: {:?}\n{}", refs, head(&after)));
                    }
                    if refs[0].text != scan::collapse_ws(&htext) {
                        return fail(srv, "c09|extract:reference-title".into(), format!("reference text {:?}, heading {:?}\n{}", refs[0].text, htext, head(&after)));
                    }
                    // the reference's section = the parent
                    let src_after = &after[key];
                    let ref_path: Option<Vec<String>> = {
                        let hs = actions::headings(src_after);
                        let mut stack: Vec<(u8, String)> = vec![];
                        for (l, lv, t) in hs {
                            if l > refs[0].line {
                                break;
                            }
                            while let Some(top) = stack.last() {
                                if top.0 >= lv {
                                    stack.pop();
                                } else {
                                    break;
                                }
                            }
                            stack.push((lv, t));
                        }
                        Some(stack.iter().map(|(_, t)| t.clone()).collect())
                    };
                    if ref_path.as_ref() != Some(&ppath) && !dup_heading {
                        return fail(srv, "c09|extract:reference-place".into(), format!("the reference sits under {:?}, the extracted section's parent is {:?}\n{}", ref_path, ppath, head(&after)));
                    }
                    if ppath.len() >= 2 || pathalg::dir_of(key) != "" {
                        nontrivial = true;
                    }
                    // round trip when this is the first sub-section of its parent
                    let hs = actions::headings(&f);
                    let idx = hs.iter().position(|(l, _, _)| *l == hline).unwrap_or(0);
                    let first_sub = idx > 0 && hs[idx - 1].1 < hs[idx].1;
                    if first_sub {
                        srv.did_change(key, src_after);
                        srv.did_change(nk, &after[nk]);
                        let again = actions::offered_at(&mut srv, key, refs[0].line as u32, "refactor.inline.reference.section").unwrap_or_default();
                        if let Some(o2) = again.first() {
                            match actions::resolve(&mut srv, o2).and_then(|ops2| actions::apply(&after, &ops2)) {
                                Ok(back) => {
                                    if back != lib {
                                        return fail(srv, "c09|extract-inline-roundtrip".into(), format!("extracting the first sub-section and inlining it again does not restore the library\n--- restored\n{}\n{}", actions::dump(&lib, &back), head(&after)));
                                    }
                                    stats.class("roundtrip:extract-inline");
                                }
                                Err((s, d)) => return fail(srv, format!("c09|roundtrip:{}", s), format!("{}\n{}", d, head(&after))),
                            }
                        } else {
                            return fail(srv, "c09|roundtrip:inline-not-offered".into(), format!("no inline action on the new reference at line {}\n{}", refs[0].line, head(&after)));
                        }
                        // restore the server's view
                        srv.did_change(key, &f);
                        srv.did_change(nk, "");
                    }
                }
                if short == "extract.subsections" {
                    if created.is_empty() || !deleted.is_empty() {
                        return fail(srv, "c09|extract-subs:ops".into(), format!("created {:?} deleted {:?}\n{}", created, deleted, head(&after)));
                    }
                    let occ = model::link_occurrences(&after);
                    for nk in &created {
                        let n = occ.iter().filter(|o| o.target == *nk && o.owner == *key && o.block_ref).count();
                        if n != 1 {
                            return fail(srv, "c09|extract-subs:reference-count".into(), format!("{} references to {} in the source\n{}", n, nk, head(&after)));
                        }
                        let nh = actions::headings(&after[nk]);
                        if nh.first().map(|(l, lv, _)| (*l, *lv)) != Some((0, 1)) {
                            return fail(srv, "c09|extract-subs:new-note-heading".into(), format!("new note {} does not start with a level-1 heading\n{}", nk, head(&after)));
                        }
                    }
                    // everything else in the source unchanged: tokens outside the extracted subsections keep their heading path
                    nontrivial = nontrivial || created.len() >= 2;
                }
                if short.starts_with("inline.reference") {
                    if deleted.len() != 1 || !created.is_empty() {
                        return fail(srv, "c09|inline:ops".into(), format!("created {:?} deleted {:?}\n{}", created, deleted, head(&after)));
                    }
                    let target = &deleted[0];
                    if let Some(ttoks) = orig_tokens.get(target) {
                        if let Some(first) = ttoks.first() {
                            // where did the target's first token land, and under which headings?
                            let src_toks = actions::tokens(&after[key]);
                            let landed = src_toks.iter().find(|t| t.word == first.word && !t.in_link);
                            // section that held the reference
                            let ref_tok_path: Vec<String> = {
                                let hs = actions::headings(&f);
                                let mut stack: Vec<(u8, String)> = vec![];
                                for (l, lv, t) in hs {
                                    if l > off.line as usize {
                                        break;
                                    }
                                    while let Some(top) = stack.last() {
                                        if top.0 >= lv {
                                            stack.pop();
                                        } else {
                                            break;
                                        }
                                    }
                                    stack.push((lv, t));
                                }
                                stack.iter().map(|(_, t)| t.clone()).collect()
                            };
                            match landed {
                                Some(t) => {
                                    let ok = t.path.len() >= ref_tok_path.len() && t.path[..ref_tok_path.len()] == ref_tok_path[..];
                                    if !ok && short.ends_with("section") {
                                        return fail(srv, "c09|inline:wrong-section".into(), format!("the inlined content landed under {:?}, the reference was under {:?}\n{}", t.path, ref_tok_path, head(&after)));
                                    }
                                }
                                None => return fail(srv, "c09|inline:content-missing".into(), format!("token {} of the inlined note is not in the source\n{}", first.word, head(&after))),
                            }
                        }
                    }
                    if pathalg::dir_of(key) != "" {
                        nontrivial = true;
                    }
                }
            }
        }
        if done > 0 {
            stats.class_n("actions", done);
        }
        if let Err((sig, detail)) = srv.finish("c09") {
            return Verdict::fail(sig, detail);
        }
        Verdict::Pass { nontrivial: nontrivial && done > 0 }
    }
    fn sample(&self, case: &LibCase) -> Value {
        json!({"notes": case.notes, "ext": case.ext})
    }
}
