//! C16 — results do not depend on thread count, load order or hash seeds.

use crate::drive::api::{self, Lib};
use crate::framework::*;
use liwe::database::Database;
use liwe::graph::GraphContext;
use liwe::model::node::NodePointer;
use liwe::model::Key;
use proptest::collection::vec;
use proptest::prelude::*;
use serde::{Deserialize, Serialize};
use serde_json::{json, Value};
use std::collections::BTreeMap;

pub struct C16;

#[derive(Clone, Debug, Serialize, Deserialize)]
pub struct NoteSpec {
    pub title: u8,
    pub block_refs: Vec<u16>,
    pub inline_links: Vec<u16>,
    pub subs: u8,
    pub dir: u8,
}

#[derive(Clone, Debug, Serialize, Deserialize)]
pub struct DetCase {
    pub notes: Vec<NoteSpec>,
    /// permutation seed for the insertion order
    pub perm: Vec<u16>,
    pub ext: String,
}

const TITLES: &[&str] = &["Alpha", "Beta", "Gamma topic", "Delta", "Alpha", "Notes on beta", "Gamma", "Index"];
/// titles with accented, upper-case and astral characters (title index 200 and up; the first
/// eight indices keep their meaning so that saved cases keep theirs)
const WIDE_TITLES: &[&str] = &["x\u{c9}e\u{1d4b3}\u{c9}\u{1d4b3}\u{c9}\u{c9}\u{e9}e", "t4\u{c9}x \u{e9}\u{e9}t\u{1d4b3}\u{1d4b3}", "\u{e9} x\u{e9}\u{1d4b3}\u{e9}t 4", "ttx4\u{1d4b3}t \u{1d4b3}\u{1d4b3}e4", "\u{c9}t\u{e9} \u{1d4b3} note", "\u{e9}t\u{e9}"];
fn title_text(i: usize) -> &'static str {
    if i >= 200 {
        WIDE_TITLES[(i - 200) % WIDE_TITLES.len()]
    } else {
        TITLES[i % TITLES.len()]
    }
}
const DIRS: &[&str] = &["", "", "", "d/", "d/e/", "g/"];

pub fn build_lib(case: &DetCase) -> Lib {
    let n = case.notes.len();
    let key_of = |i: usize| format!("{}n{:03}", DIRS[(case.notes[i].dir as usize) % DIRS.len()], i);
    let mut lib = Lib::new();
    for (i, spec) in case.notes.iter().enumerate() {
        let dir = crate::pathalg::dir_of(&key_of(i));
        // title indices from 230: the title holds a link to another note of the library root
        // (a title is then made of another note's title: an order dependence would show)
        let linked_title = if spec.title >= 230 {
            (0..n).map(|j| key_of((i + 1 + j) % n)).find(|k| !k.contains('/') && *k != key_of(i)).map(|k| format!("About [old]({}) topic", k))
        } else {
            None
        };
        let mut t = format!("# {}\n\n", linked_title.unwrap_or_else(|| title_text(spec.title as usize).to_string()));
        t.push_str(&format!("text of note {} ", i));
        // inline links are generated in root notes only (they are keyed by their raw url)
        if dir.is_empty() {
            for l in &spec.inline_links {
                let target = key_of((*l as usize) % n);
                t.push_str(&format!("see [x]({}) ", target));
            }
        }
        t.push_str("\n\n");
        for s in 0..(spec.subs % 4) {
            t.push_str(&format!("## {} part {}\n\nbody {}\n\n", title_text(spec.title as usize + s as usize), s, s));
        }
        for r in &spec.block_refs {
            let target = key_of((*r as usize) % n);
            t.push_str(&format!("[ref]({})\n\n", crate::pathalg::relative(&dir, &target)));
        }
        lib.insert(key_of(i), t);
    }
    lib
}

/// Canonical dump without arena ids.
pub fn dump(db: &Database, keys: &[String]) -> BTreeMap<String, Value> {
    let g = db.graph();
    let mut out = BTreeMap::new();
    let exported: BTreeMap<String, String> = g.export().into_iter().collect();
    out.insert("export".into(), json!(exported));
    let place = |id: u64| -> String { format!("{}:{:?}", g.node(id).node_key(), g.node_line_range(id).map(|r| r.start)) };
    for k in keys {
        let key = Key::from_file_name(k);
        out.insert(format!("title:{}", k), json!(g.get_key_title(&key)));
        let mut b: Vec<String> = g.get_block_references_to(&key).iter().map(|id| place(*id)).collect();
        b.sort();
        let mut i: Vec<String> = g.get_inline_references_to(&key).iter().map(|id| place(*id)).collect();
        i.sort();
        out.insert(format!("backlinks:{}", k), json!([b, i]));
    }
    let mut paths: Vec<String> = g
        .paths()
        .iter()
        .map(|p| format!("{} @{}", p.ids().iter().map(|id| g.get_text(*id)).collect::<Vec<_>>().join(" • "), g.node(p.target()).node_key()))
        .collect();
    paths.sort();
    out.insert("paths(sorted)".into(), json!(paths));
    for q in ["", "alpha", "gam top", "part 1", "zzz", "\u{e9}\u{e9}t", "\u{e9}t\u{e9} 1"] {
        let res: Vec<Value> = db.global_search(q).iter().map(|p| json!([p.search_text, p.key.to_string(), p.line, p.node_rank])).collect();
        out.insert(format!("search:{:?}", q), json!(res));
    }
    out
}

pub fn dump_imported(case: &DetCase) -> BTreeMap<String, Value> {
    let lib = build_lib(case);
    let keys: Vec<String> = lib.keys().cloned().collect();
    let db = Database::new(api::to_state(&lib), false, api::opts(&case.ext));
    dump(&db, &keys)
}

pub fn dump_inserted(case: &DetCase) -> BTreeMap<String, Value> {
    let lib = build_lib(case);
    let keys: Vec<String> = lib.keys().cloned().collect();
    let mut order: Vec<usize> = (0..keys.len()).collect();
    // permutation from the generated swaps
    for (i, p) in case.perm.iter().enumerate() {
        let a = i % order.len();
        let b = (*p as usize) % order.len();
        order.swap(a, b);
    }
    let mut db = Database::new(Default::default(), false, api::opts(&case.ext));
    for i in order {
        db.insert_document(Key::from_file_name(&keys[i]), lib[&keys[i]].clone());
    }
    dump(&db, &keys)
}

fn hash_dump(d: &BTreeMap<String, Value>) -> String {
    sha_hex(serde_json::to_string(d).unwrap().as_bytes())
}

fn first_diff(a: &BTreeMap<String, Value>, b: &BTreeMap<String, Value>) -> Option<(String, String)> {
    for (k, va) in a {
        if b.get(k) != Some(va) {
            return Some((k.clone(), format!("A: {}\nB: {}", va, b.get(k).cloned().unwrap_or(Value::Null))));
        }
    }
    None
}

/// entry for child processes: `vcheck dump16 <case file>` prints the dump hash of an import
pub fn child_main(file: &str) -> i32 {
    let v: Value = serde_json::from_slice(&std::fs::read(file).expect("case file")).expect("json");
    let case: DetCase = serde_json::from_value(v.get("case").cloned().unwrap_or(v)).expect("case");
    println!("DUMP16 {}", hash_dump(&dump_imported(&case)));
    0
}

impl Property for C16 {
    type Case = DetCase;
    fn id(&self) -> &'static str {
        "C16"
    }
    fn rule(&self) -> String {
        "libraries of 20-160 small notes (duplicate titles, equal ranks, block references and links, three directories) so that rayon really splits the work; configurations: rayon pools of 1, 2, 3, 8 and 16 threads (ThreadPool::install) around import and every query; a generated permutation of insert_document order versus import; and four separate child processes (fresh hash-map seeds each); oracle: one canonical dump without arena ids (sorted export, titles, backlink sets as (note, line), sorted rendered paths, ordered search results for five queries) is byte-identical across all configurations; non-trivial = at least 20 notes and at least two search entries tied on rank".into()
    }
    fn assumptions(&self) -> Vec<String> {
        vec!["paths() is compared as a sorted list (it is ordered by arena ids, which legitimately depend on load order); search results are compared in order".into()]
    }
    fn cases(&self, tier: Tier) -> u64 {
        match tier {
            Tier::Quick => 320,
            Tier::Thorough => 6000,
        }
    }
    fn max_shrink_iters(&self) -> u32 {
        300
    }
    fn strategy(&self, _features: &Features, _tier: Tier) -> BoxedStrategy<DetCase> {
        let note = (prop_oneof![6 => 0u8..8, 2 => 200u8..206, 1 => 230u8..232], vec(0u16..400, 0..3), vec(0u16..400, 0..3), 0u8..4, 0u8..6)
            .prop_map(|(title, block_refs, inline_links, subs, dir)| NoteSpec { title, block_refs, inline_links, subs, dir });
        (vec(note, 20..160), vec(0u16..400, 0..40), prop_oneof![Just(String::new()), Just(".md".to_string())])
            .prop_map(|(notes, perm, ext)| DetCase { notes, perm, ext })
            .boxed()
    }
    fn check(&self, case: &DetCase, stats: &mut Stats) -> Verdict {
        let base = dump_imported(case);
        // the number of outline paths grows exponentially with shared includes; eleven dumps of a
        // library with tens of thousands of paths cost minutes without saying more than smaller ones
        let npaths = base.get("paths(sorted)").and_then(|v| v.as_array()).map(|a| a.len()).unwrap_or(0);
        if npaths > 12_000 {
            return Verdict::Discard(format!("path listing larger than 12 000 entries"));
        }
        // thread pools
        for threads in [1usize, 2, 3, 8, 16] {
            let pool = rayon::ThreadPoolBuilder::new().num_threads(threads).build().expect("pool");
            let d = pool.install(|| dump_imported(case));
            if let Some((what, detail)) = first_diff(&base, &d) {
                return Verdict::fail(format!("c16|threads|{}", what.split(':').next().unwrap_or("")), format!("with {} threads observation {:?} differs\n{}", threads, what, detail.chars().take(2000).collect::<String>()));
            }
        }
        stats.class("config:pools");
        // insertion order
        let ins = dump_inserted(case);
        if let Some((what, detail)) = first_diff(&base, &ins) {
            return Verdict::fail(format!("c16|insert-order|{}", what.split(':').next().unwrap_or("")), format!("inserting the notes one by one in a permuted order: observation {:?} differs from import\n{}", what, detail.chars().take(2000).collect::<String>()));
        }
        stats.class("config:insert-order");
        // separate processes
        let want = hash_dump(&base);
        let file = std::path::Path::new(VERIF_ROOT.as_str()).join("work").join("C16").join(format!("child-{}.json", std::process::id()));
        let _ = std::fs::create_dir_all(file.parent().unwrap());
        std::fs::write(&file, serde_json::to_vec(&json!({"case": case})).unwrap()).expect("write case");
        let exe = std::env::current_exe().expect("exe");
        for i in 0..4 {
            let out = std::process::Command::new(&exe).arg("dump16").arg("C16").arg(&file).env("RAYON_NUM_THREADS", ["1", "4", "7", "16"][i]).output().expect("child");
            let so = String::from_utf8_lossy(&out.stdout);
            let got = so.lines().find_map(|l| l.strip_prefix("DUMP16 ")).unwrap_or("").to_string();
            if got != want {
                let _ = std::fs::remove_file(&file);
                return Verdict::fail("c16|process", format!("child process {} produced dump {} instead of {} (stderr: {})", i, got, want, String::from_utf8_lossy(&out.stderr).chars().take(400).collect::<String>()));
            }
        }
        let _ = std::fs::remove_file(&file);
        stats.class("config:processes");
        // ties on rank?
        let ties = base.get("search:\"\"").and_then(|v| v.as_array()).map(|a| {
            let ranks: Vec<u64> = a.iter().map(|e| e[3].as_u64().unwrap_or(0)).collect();
            ranks.windows(2).any(|w| w[0] == w[1])
        }).unwrap_or(false);
        Verdict::Pass { nontrivial: case.notes.len() >= 20 && ties }
    }
    fn sample(&self, case: &DetCase) -> Value {
        json!({"notes": case.notes.len(), "first": case.notes.iter().take(3).collect::<Vec<_>>(), "perm": case.perm.iter().take(8).collect::<Vec<_>>()})
    }
}
