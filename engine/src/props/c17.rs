//! C17 — squash expands references to a bounded depth and always terminates.

use crate::canon::{self, CanonOpts};
use crate::drive::api::{self, Lib};
use crate::framework::*;
use crate::gen::doc::{self, DocCfg, LinkPool};
use crate::pathalg;
use crate::scan::{self, BKind, SBlock, SInline};
use liwe::graph::{Graph, GraphContext};
use liwe::model::tree::TreeIter;
use liwe::model::Key;
use proptest::prelude::*;
use serde::{Deserialize, Serialize};
use serde_json::{json, Value};
use std::collections::BTreeMap;

pub struct C17;

#[derive(Clone, Debug, Serialize, Deserialize)]
pub struct SquashCase {
    pub notes: Vec<(String, String)>,
    pub root: u8,
    pub depth: u8,
}

/// Section tree used on both sides of the comparison.
#[derive(Clone, Debug, PartialEq)]
pub enum T {
    Section(String, Vec<T>),
    Block(String),
    /// block reference: resolved target
    Ref(String),
}

fn is_block_ref(b: &SBlock) -> Option<String> {
    if !matches!(b.kind, BKind::Para) || b.inlines.len() != 1 {
        return None;
    }
    match &b.inlines[0] {
        SInline::Link { dest, .. } if scan::is_ref_url(dest) => Some(pathalg::resolve("", pathalg::strip_md(dest))),
        _ => None,
    }
}

fn list_texts(b: &SBlock, out: &mut Vec<String>) {
    for c in &b.children {
        match c.kind {
            BKind::Para | BKind::Heading(_) => out.push(scan::collapse_ws(&scan::plain_text(&c.inlines))),
            BKind::Code { .. } => out.push(format!("code:{}", c.text.trim())),
            _ => list_texts(c, out),
        }
    }
}

/// Leaf rendering shared by both sides (model from the scan, actual from iwe's Tree).
fn leaf_of_scan(b: &SBlock) -> Option<String> {
    match &b.kind {
        BKind::Para => Some(format!("P:{}", scan::collapse_ws(&scan::plain_text(&b.inlines)))),
        BKind::Code { lang, .. } => Some(format!("C:{}:{}", lang.trim(), b.text.trim_matches('\n').trim_end())),
        BKind::List { ordered, .. } => {
            let mut v = vec![];
            list_texts(b, &mut v);
            Some(format!("L:{}({})", if *ordered { "o" } else { "b" }, v.join("|")))
        }
        BKind::Rule => Some("R".into()),
        _ => None,
    }
}

/// Top-level blocks of a note as (heading level | 0, T leaf)
fn flat(text: &str) -> Vec<(u8, T)> {
    let s = scan::scan(text);
    let mut out = vec![];
    for b in &s.blocks {
        if let Some(t) = is_block_ref(b) {
            out.push((0, T::Ref(t)));
            continue;
        }
        match b.kind {
            BKind::Heading(l) => out.push((l, T::Section(scan::collapse_ws(&scan::plain_text(&b.inlines)), vec![]))),
            _ => {
                if let Some(l) = leaf_of_scan(b) {
                    out.push((0, T::Block(l)));
                }
            }
        }
    }
    out
}

fn tree_texts(t: &liwe::model::tree::Tree, out: &mut Vec<String>) {
    use liwe::model::node::Node;
    for c in &t.children {
        match &c.node {
            Node::Section(_) | Node::Leaf(_) => {
                out.push(scan::collapse_ws(&c.node.plain_text()));
                tree_texts(c, out);
            }
            Node::Raw(_, content) => out.push(format!("code:{}", content.trim())),
            Node::Table(t) => {
                out.push(table_text(t));
                tree_texts(c, out)
            }
            _ => tree_texts(c, out),
        }
    }
}

fn table_text(t: &liwe::model::node::Table) -> String {
    let cell = |c: &liwe::model::graph::GraphInlines| scan::collapse_ws(&liwe::model::graph::to_plain_text(c));
    let mut cells: Vec<String> = t.header.iter().map(cell).collect();
    for r in &t.rows {
        cells.extend(r.iter().map(cell));
    }
    format!("T:{}", cells.join("|"))
}

/// iwe's squashed Tree in the same form
pub fn of_tree(t: &liwe::model::tree::Tree) -> Vec<T> {
    use liwe::model::node::Node;
    let mut out = vec![];
    for c in &t.children {
        match &c.node {
            Node::Section(_) => out.push(T::Section(scan::collapse_ws(&c.node.plain_text()), of_tree(c))),
            Node::Leaf(_) => out.push(T::Block(format!("P:{}", scan::collapse_ws(&c.node.plain_text())))),
            Node::Raw(lang, content) => out.push(T::Block(format!("C:{}:{}", lang.clone().unwrap_or_default().trim(), content.trim_matches('\n').trim_end()))),
            Node::BulletList() | Node::OrderedList() => {
                let mut v = vec![];
                tree_texts(c, &mut v);
                out.push(T::Block(format!("L:{}({})", if matches!(c.node, Node::OrderedList()) { "o" } else { "b" }, v.join("|"))));
            }
            Node::HorizontalRule() => out.push(T::Block("R".into())),
            Node::Reference(r) => out.push(T::Ref(r.key.to_string())),
            Node::Quote() => out.push(T::Block("Q".into())),
            Node::Table(t) => out.push(T::Block(table_text(t))),
            Node::Document(_) => out.extend(of_tree(c)),
        }
    }
    out
}

/// Nest a flat list by heading levels (a heading owns what follows until a heading of the same or
/// a higher rank).
pub fn nest(flat: Vec<(u8, T)>) -> Vec<T> {
    // stack of (level, section text, children)
    let mut root: Vec<T> = vec![];
    let mut stack: Vec<(u8, String, Vec<T>)> = vec![];
    fn close(stack: &mut Vec<(u8, String, Vec<T>)>, root: &mut Vec<T>) {
        let (_, text, children) = stack.pop().unwrap();
        let sec = T::Section(text, children);
        match stack.last_mut() {
            Some(parent) => parent.2.push(sec),
            None => root.push(sec),
        }
    }
    for (level, t) in flat {
        if level > 0 {
            while let Some(top) = stack.last() {
                if top.0 >= level {
                    close(&mut stack, &mut root);
                } else {
                    break;
                }
            }
            if let T::Section(text, _) = t {
                stack.push((level, text, vec![]));
            }
        } else {
            match stack.last_mut() {
                Some(top) => top.2.push(t),
                None => root.push(t),
            }
        }
    }
    while !stack.is_empty() {
        close(&mut stack, &mut root);
    }
    root
}

pub fn expand(lib: &BTreeMap<String, Vec<T>>, nodes: &[T], depth: u32, budget: &mut i64) -> Vec<T> {
    let mut out = vec![];
    for n in nodes {
        *budget -= 1;
        if *budget < 0 {
            return out;
        }
        match n {
            T::Section(t, ch) => out.push(T::Section(t.clone(), expand(lib, ch, depth, budget))),
            T::Block(b) => out.push(T::Block(b.clone())),
            T::Ref(target) => match lib.get(target) {
                Some(content) if depth > 0 => out.extend(expand(lib, content, depth - 1, budget)),
                _ => out.push(T::Ref(target.clone())),
            },
        }
    }
    out
}

/// canonical form: children sorted (sibling order is not fixed by the property)
pub fn canonical(nodes: &[T]) -> String {
    let mut parts: Vec<String> = nodes
        .iter()
        .map(|n| match n {
            T::Section(t, ch) => format!("S[{}]{{{}}}", t, canonical(ch)),
            T::Block(b) => format!("B[{}]", b),
            T::Ref(r) => format!("R[{}]", r),
        })
        .collect();
    parts.sort();
    parts.join(";")
}

fn depth_of(nodes: &[T]) -> usize {
    nodes
        .iter()
        .map(|n| match n {
            T::Section(_, ch) => 1 + depth_of(ch),
            _ => 0,
        })
        .max()
        .unwrap_or(0)
}

/// the largest number of sibling blocks anywhere in the tree
fn max_siblings(nodes: &[T]) -> usize {
    nodes
        .iter()
        .map(|n| match n {
            T::Section(_, ch) => max_siblings(ch),
            _ => 0,
        })
        .max()
        .unwrap_or(0)
        .max(nodes.len())
}

/// relative order of the non-reference blocks (they keep their order)
fn block_sequence(nodes: &[T], out: &mut Vec<String>) {
    for n in nodes {
        match n {
            T::Section(t, ch) => {
                out.push(t.clone());
                block_sequence(ch, out);
            }
            T::Block(b) => out.push(b.clone()),
            T::Ref(_) => {}
        }
    }
}

pub fn squash_export(lib: &Lib, root: &str, depth: u8) -> (Vec<T>, String) {
    let g = Graph::import(&api::to_state(lib), api::opts(""));
    let key = Key::from_file_name(root);
    let squashed = (&g).squash(&key, depth);
    let tree = of_tree(&squashed);
    let mut patch = Graph::new();
    patch.build_key_from_iter(&key, TreeIter::new(&squashed));
    (tree, patch.export_key(&key).unwrap_or_default())
}

impl Property for C17 {
    type Case = SquashCase;
    fn id(&self) -> &'static str {
        "C17"
    }
    fn rule(&self) -> String {
        "libraries of 1-5 root-level notes (title, sub-headings, paragraphs, lists, code, and block references at top and section level to other notes, to themselves, to missing notes) whose reference graph is arbitrary (trees, shared targets, cycles, self-loops, dangling), squashed at depth 0-6, plus chains and single self-loops at depth up to 255; oracle: the squashed tree, rebuilt and exported as the CLI does and re-scanned independently, equals - as a section tree modulo sibling order - the harness's own recursive expansion of the source notes (reference replaced by the target's content at depth-1, kept as a link at depth 0 or when the target is missing), non-reference blocks keep their relative order, and every word token occurs with the multiplicity the expansion predicts; termination by watchdog; the expected expansion is kept below 50 000 nodes; non-trivial = a cycle or a shared target with depth >= 2".into()
    }
    fn assumptions(&self) -> Vec<String> {
        vec!["sibling order of expanded references is not fixed by the property (squash moves them after the other siblings)".into(), "expansions nested deeper than six heading levels are compared by token multiplicity only".into()]
    }
    fn hang_is_violation(&self) -> bool {
        true
    }
    fn domain_off(&self) -> Vec<&'static str> {
        vec![
            "item_first_list", "item_first_heading", "empty_item", "html_block", "table", "quote", "image", "inline_html", "crlf",
            "front_matter", "block_ref_in_item", "block_ref_in_quote", "refdef", "link_title", "setext", "rule", "wiki", "autolink",
        ]
    }
    fn cases(&self, tier: Tier) -> u64 {
        match tier {
            Tier::Quick => 4000,
            Tier::Thorough => 100_000,
        }
    }
    fn strategy(&self, features: &Features, _tier: Tier) -> BoxedStrategy<SquashCase> {
        let features = features.clone();
        let keys = vec!["n1".to_string(), "n2".to_string(), "n3".to_string(), "n4".to_string(), "n5".to_string()];
        let general = (1usize..=5)
            .prop_flat_map(move |n| {
                let ks: Vec<String> = keys[..n].to_vec();
                let mut docs: Vec<BoxedStrategy<String>> = vec![];
                for i in 0..n {
                    let mut f = features.clone();
                    f.off.insert("link".into()); // no inline links: only block references matter here
                    let mut cfg = DocCfg::new(&f);
                    let mut targets = ks.clone();
                    targets.push("missing".into());
                    cfg.pool = LinkPool { internal: targets, external: vec![] };
                    cfg.inline_pool = Some(LinkPool { internal: vec![], external: vec![] });
                    cfg.max_blocks = 5;
                    cfg.depth = 1;
                    cfg.title_p = 0.8;
                    cfg.block_ref_weight = 12;
                    cfg.number_from = (i as u32 + 1) * 1000;
                    // block references need the link feature: re-enable for block refs only
                    cfg.features.off.remove("link");
                    cfg.features.off.insert("emph".into());
                    docs.push(doc::text(&cfg));
                }
                (Just(ks), docs, 0u8..5, 0u8..7)
            })
            .prop_map(|(ks, texts, root, depth)| SquashCase { notes: ks.into_iter().zip(texts).collect(), root, depth });
        // chains and self loops, deep
        let deep = (0u8..3, 1u8..=255).prop_map(|(shape, depth)| {
            let notes = match shape {
                0 => vec![("n1".to_string(), "# loop w1\n\ntext w2\n\n[self](n1)\n".to_string())],
                1 => vec![
                    ("n1".to_string(), "# a w1\n\n[b](n2)\n".to_string()),
                    ("n2".to_string(), "# b w2\n\npara w3\n\n[a](n1)\n".to_string()),
                ],
                _ => vec![
                    ("n1".to_string(), "# c1 w1\n\n[x](n2)\n".to_string()),
                    ("n2".to_string(), "# c2 w2\n\n[x](n3)\n".to_string()),
                    ("n3".to_string(), "# c3 w3\n\nend w4\n".to_string()),
                ],
            };
            SquashCase { notes, root: 0, depth }
        });
        prop_oneof![12 => general, 1 => deep].boxed()
    }
    fn check(&self, case: &SquashCase, stats: &mut Stats) -> Verdict {
        let lib: Lib = case.notes.iter().cloned().collect();
        for t in lib.values() {
            let s = scan::scan(t);
            if let Some(r) = canon::domain_discard(&s) {
                return Verdict::Discard(r);
            }
            let o = CanonOpts { dir: String::new(), mask_refreshable: false };
            if !feature_on("adjacent_lists") && canon::has_adjacent_same_lists(&canon::canon(&s, &o).blocks) {
                return Verdict::Discard("known-domain: adjacent lists of the same kind".into());
            }
        }
        let root = case.notes[(case.root as usize) % case.notes.len()].0.clone();
        // the notes' own section structure is taken as iwe builds it (C07 judges that); the
        // expansion below is the harness's own
        let model: BTreeMap<String, Vec<T>> = {
            let g = Graph::import(&api::to_state(&lib), api::opts(""));
            lib.keys().map(|k| (k.clone(), of_tree(&(&g).collect(&Key::from_file_name(k))))).collect()
        };
        let _ = (nest(vec![]), flat(""));
        let mut budget: i64 = 50_000;
        let expected = expand(&model, &model[&root], case.depth as u32, &mut budget);
        if budget < 0 {
            return Verdict::Discard("expansion larger than 50 000 nodes".into());
        }
        // thousands of sibling blocks overflow the stack of every recursive walk in iwe
        // (KF-DEEP-RECURSION): outside the strict domain while that finding stands
        if !feature_on("scale_big") && max_siblings(&expected) > 800 {
            return Verdict::Discard("known-domain: expansion with more than 800 sibling blocks".into());
        }
        let (got, out) = squash_export(&lib, &root, case.depth);
        // references in the model that carry a cycle / sharing
        let has_ref = model.values().any(|v| canonical(v).contains("R["));
        stats.class(&format!("depth:{}", case.depth.min(7)));
        let deep = depth_of(&expected) > 40;
        {
            if deep {
                stats.class("deep:token-multiset");
            }
            // token multiplicities only
            let mut e = vec![];
            block_sequence(&expected, &mut e);
            let count = |text: &str| -> BTreeMap<String, usize> {
                let mut m = BTreeMap::new();
                for w in text.split(|c: char| !c.is_alphanumeric()).filter(|w| w.chars().last().map(|c| c.is_ascii_digit()).unwrap_or(false) && w.chars().any(|c| !c.is_ascii_digit())) {
                    *m.entry(w.to_string()).or_insert(0) += 1;
                }
                m
            };
            let ce = count(&e.join(" "));
            // the text of a remaining reference is the (refreshed) title: not counted
            let without_links: String = out.lines().filter(|l| !(l.trim_start().starts_with('[') && l.trim_end().ends_with(')'))).collect::<Vec<_>>().join("\n");
            let cg = count(&without_links);
            if ce != cg {
                return Verdict::fail(
                    "c17|token-multiplicity",
                    format!("depth {}: expected token counts {:?}, got {:?}\nnotes: {:?}\noutput:\n{}", case.depth, ce, cg, case.notes, out.chars().take(1500).collect::<String>()),
                );
            }
            if deep {
                return Verdict::Pass { nontrivial: case.depth >= 2 };
            }
        }
        if canonical(&expected) != canonical(&got) {
            let mut d = format!("squash({}, depth {}) differs from the expansion model\nexpected (canonical): {}\ngot      (canonical): {}\n", root, case.depth, canonical(&expected), canonical(&got));
            for (k, v) in &lib {
                d.push_str(&format!("--- {}\n{}\n", k, v));
            }
            d.push_str(&format!("--- squashed output\n{}\n", out));
            let (le, lg) = (canonical(&expected).len(), canonical(&got).len());
            let kind = if lg < le { "content-missing" } else if lg > le { "content-extra" } else { "content-differs" };
            return Verdict::fail(format!("c17|{}", kind), d);
        }
        let (mut se, mut sg) = (vec![], vec![]);
        block_sequence(&expected, &mut se);
        block_sequence(&got, &mut sg);
        // order of non-reference blocks of the root note itself (expanded parts may move as a whole)
        let own: Vec<String> = {
            let mut v = vec![];
            block_sequence(&model[&root], &mut v);
            v
        };
        let pos: Vec<Option<usize>> = own.iter().map(|b| sg.iter().position(|x| x == b)).collect();
        if pos.windows(2).any(|w| matches!((w[0], w[1]), (Some(a), Some(b)) if a > b)) && own.iter().collect::<std::collections::BTreeSet<_>>().len() == own.len() {
            return Verdict::fail("c17|own-order", format!("the root note's own blocks changed their relative order\nown: {:?}\ngot: {:?}", own, sg));
        }
        let _ = se;
        // cycle / sharing?
        let cyc = {
            // a target reachable twice or the root reachable from itself
            let mut seen = std::collections::BTreeSet::new();
            let mut shared = false;
            fn refs(nodes: &[T], out: &mut Vec<String>) {
                for n in nodes {
                    match n {
                        T::Section(_, ch) => refs(ch, out),
                        T::Ref(r) => out.push(r.clone()),
                        _ => {}
                    }
                }
            }
            let mut stack = vec![root.clone()];
            while let Some(k) = stack.pop() {
                let mut r = vec![];
                if let Some(c) = model.get(&k) {
                    refs(c, &mut r);
                }
                for t in r {
                    if !seen.insert(t.clone()) {
                        shared = true;
                    } else {
                        stack.push(t);
                    }
                }
            }
            shared
        };
        if cyc {
            stats.class("graph:cycle-or-shared");
        }
        Verdict::Pass { nontrivial: has_ref && cyc && case.depth >= 2 }
    }
    fn sample(&self, case: &SquashCase) -> Value {
        json!({"notes": case.notes, "root": case.root, "depth": case.depth})
    }
}
