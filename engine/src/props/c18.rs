//! C18 — symbol search and path listings show every heading and only real ones.

use crate::drive::api::{self, Lib};
use crate::framework::*;
use crate::gen::doc::{self, DocCfg, LinkPool};
use crate::model;
use crate::scan::{self, BKind, Lines, SInline};
use fuzzy_matcher::skim::SkimMatcherV2;
use fuzzy_matcher::FuzzyMatcher;
use liwe::database::Database;
use liwe::graph::GraphContext;
use liwe::model::node::NodePointer;
use proptest::prelude::*;
use serde::{Deserialize, Serialize};
use serde_json::{json, Value};
use std::collections::{BTreeMap, BTreeSet};

pub struct C18;

#[derive(Clone, Debug, Serialize, Deserialize)]
pub struct PathCase {
    pub notes: Vec<(String, String)>,
    pub queries: Vec<String>,
}

/// A heading of the model: (note, line, text, level) plus children (sub-headings and included notes)
#[derive(Clone, Debug)]
struct H {
    key: String,
    line: usize,
    text: String,
    /// indices of direct sub-headings
    subs: Vec<usize>,
    /// notes included by a block reference lying directly in this heading's section
    includes: Vec<String>,
    /// the note's title: a heading that is the first block of the note
    primary: bool,
}

struct Model {
    hs: Vec<H>,
    /// per note: indices of its top-level headings, and notes included before any heading
    tops: BTreeMap<String, Vec<usize>>,
    doc_includes: BTreeMap<String, Vec<String>>,
    referenced: BTreeSet<String>,
}

fn block_ref_target(b: &scan::SBlock) -> Option<String> {
    if !matches!(b.kind, BKind::Para) || b.inlines.len() != 1 {
        return None;
    }
    match &b.inlines[0] {
        SInline::Link { dest, .. } if scan::is_ref_url(dest) => Some(crate::pathalg::resolve("", crate::pathalg::strip_md(dest))),
        _ => None,
    }
}

fn build_model(lib: &Lib) -> Model {
    let mut m = Model { hs: vec![], tops: BTreeMap::new(), doc_includes: BTreeMap::new(), referenced: BTreeSet::new() };
    for (k, text) in lib {
        let s = scan::scan(text);
        let lines = Lines::new(text);
        // stack of (level, index)
        let mut stack: Vec<(u8, usize)> = vec![];
        m.tops.insert(k.clone(), vec![]);
        m.doc_includes.insert(k.clone(), vec![]);
        for (bi, b) in s.blocks.iter().enumerate() {
            match b.kind {
                BKind::Heading(l) => {
                    while let Some(top) = stack.last() {
                        if top.0 >= l {
                            stack.pop();
                        } else {
                            break;
                        }
                    }
                    let idx = m.hs.len();
                    m.hs.push(H {
                        key: k.clone(),
                        line: lines.line_of(b.span.0),
                        text: scan::plain_text(&b.inlines).trim().to_string(),
                        subs: vec![],
                        includes: vec![],
                        primary: bi == 0,
                    });
                    match stack.last() {
                        Some((_, p)) => m.hs[*p].subs.push(idx),
                        None => m.tops.get_mut(k).unwrap().push(idx),
                    }
                    stack.push((l, idx));
                }
                _ => {
                    if let Some(t) = block_ref_target(b) {
                        if lib.contains_key(&t) {
                            m.referenced.insert(t.clone());
                        }
                        match stack.last() {
                            Some((_, p)) => m.hs[*p].includes.push(t),
                            None => m.doc_includes.get_mut(k).unwrap().push(t),
                        }
                    }
                }
            }
        }
    }
    m
}

/// all simple chains (as heading indices) from the top-level headings of unreferenced notes
fn chains(m: &Model) -> Vec<Vec<usize>> {
    let mut out = vec![];
    fn tops_of(m: &Model, note: &str, seen_notes: &mut Vec<String>, acc: &mut Vec<usize>) {
        // top-level headings of `note`, and (transitively) of notes it includes before any heading
        if seen_notes.iter().any(|n| n == note) {
            return;
        }
        seen_notes.push(note.to_string());
        if let Some(t) = m.tops.get(note) {
            acc.extend(t.iter().cloned());
        }
        if let Some(incs) = m.doc_includes.get(note) {
            for i in incs.clone() {
                tops_of(m, &i, seen_notes, acc);
            }
        }
    }
    fn walk(m: &Model, path: &mut Vec<usize>, out: &mut Vec<Vec<usize>>, budget: &mut i64) {
        *budget -= 1;
        if *budget < 0 {
            return;
        }
        out.push(path.clone());
        let h = m.hs[*path.last().unwrap()].clone();
        let mut next: Vec<usize> = h.subs.clone();
        for inc in &h.includes {
            // a chain does not enter a note it is already inside (the listing's cycle guard)
            if path.iter().any(|i| m.hs[*i].key == *inc) {
                continue;
            }
            let mut acc = vec![];
            tops_of(m, inc, &mut vec![], &mut acc);
            next.extend(acc);
        }
        for n in next {
            if path.contains(&n) {
                continue;
            }
            path.push(n);
            walk(m, path, out, budget);
            path.pop();
        }
    }
    let mut budget: i64 = 20_000;
    for (note, tops) in &m.tops {
        if m.referenced.contains(note) {
            continue;
        }
        for t in tops {
            let mut p = vec![*t];
            walk(m, &mut p, &mut out, &mut budget);
        }
    }
    out
}

impl Property for C18 {
    type Case = PathCase;
    fn id(&self) -> &'static str {
        "C18"
    }
    fn rule(&self) -> String {
        "(each library is judged twice: loaded, and reached through updates of every note from another text) libraries of 1-6 root-level notes with well-nested heading trees, duplicate and empty headings, block references at top and section level forming trees, DAGs with shared targets and cycles, links in running text (for ranks), occasionally more than 100 headings, and queries from {\"\", heading words, substrings, random strings}; oracle from an independent scan: the set of listed paths (heading texts + note + line of the last heading) equals the set of simple chains that start at a top-level heading of a note nobody includes and step to a direct sub-heading or to a top-level heading of a note included by a block reference lying directly in that section (soundness and completeness at once; headings inside lists and quotes never appear); global_search returns at most 100 entries whose sort keys are exactly the first keys of all paths under the documented order (fuzzy score recomputed with the same matcher crate, then length, then rank; empty query: rank then length), ranks equal the model's backlink counts, workspace/symbol names are the chain texts joined by ' • '; non-trivial = a shared target or a cycle, or more than 100 headings".into()
    }
    fn assumptions(&self) -> Vec<String> {
        vec!["fuzzy-matcher 0.3.7 (SkimMatcherV2) is trusted for scores".into(), "heading levels are generated well-nested: how a skipped level nests is C07's business".into()]
    }
    fn domain_off(&self) -> Vec<&'static str> {
        vec![
            "item_first_list", "item_first_heading", "empty_item", "html_block", "crlf", "front_matter", "block_ref_in_item", "block_ref_in_quote",
            "refdef", "setext", "inline_html", "image", "table", "wiki", "autolink", "link_title", "heading_in_item", "heading_in_quote",
            "quote", "link_in_item",
        ]
    }
    fn cases(&self, tier: Tier) -> u64 {
        match tier {
            Tier::Quick => 2500,
            Tier::Thorough => 50_000,
        }
    }
    fn strategy(&self, features: &Features, _tier: Tier) -> BoxedStrategy<PathCase> {
        let features = features.clone();
        let all = vec!["n1".to_string(), "n2".to_string(), "n3".to_string(), "n4".to_string(), "n5".to_string(), "n6".to_string()];
        (1usize..=6, proptest::bool::weighted(0.04), proptest::bool::weighted(0.2))
            .prop_flat_map(move |(n, many, back_edges)| {
                let ks: Vec<String> = all[..n].to_vec();
                let mut docs: Vec<BoxedStrategy<String>> = vec![];
                for i in 0..n {
                    let mut cfg = DocCfg::new(&features);
                    // outside the cycle finding's domain block references only point "forward": a DAG
                    // (one case in five may point backwards as well: cycles that hang below a note
                    // nobody includes are listed like any other chain and stay in the strict domain;
                    // cycles without such a root are recognised on the input, see check)
                    let mut targets: Vec<String> = if features.on("include_cycle") || back_edges { ks.clone() } else { ks[i + 1..].to_vec() };
                    targets.push("missing".into());
                    cfg.pool = LinkPool { internal: targets.clone(), external: vec![] };
                    cfg.inline_pool = Some(LinkPool { internal: ks.clone(), external: vec!["https://example.com/p1".into()] });
                    cfg.max_blocks = if many && i == 0 { 8 } else { 7 };
                    cfg.depth = 1;
                    cfg.title_p = 0.8;
                    cfg.block_ref_weight = 4;
                    cfg.force_wellnested = true;
                    cfg.number_from = (i as u32 + 1) * 1000;
                    docs.push(doc::text(&cfg));
                }
                let queries = proptest::collection::vec(prop_oneof![Just(String::new()), Just("w".to_string()), "[a-zé]{1,3}", Just("w1001 w".to_string()), Just("qqqq".to_string())], 1..4);
                (Just(ks), docs, queries, Just(many))
            })
            .prop_map(|(ks, mut texts, queries, many)| {
                if many {
                    // more than 100 headings in the first note
                    let mut extra = String::new();
                    for i in 0..105 {
                        extra.push_str(&format!("\n## bulk{} w{}\n", i % 7, 9000 + i));
                    }
                    texts[0].push_str(&extra);
                }
                PathCase { notes: ks.into_iter().zip(texts).collect(), queries }
            })
            .boxed()
    }
    fn check(&self, case: &PathCase, stats: &mut Stats) -> Verdict {
        let lib: Lib = case.notes.iter().cloned().collect();
        for t in lib.values() {
            if let Some(r) = crate::canon::crash_domain_discard(&scan::scan(t)) {
                return Verdict::Discard(r);
            }
        }
        let mut m = build_model(&lib);
        // a note counts as included as soon as any block reference points at it, wherever it lies
        let occ_all = model::link_occurrences(&lib);
        for o in &occ_all {
            if o.block_ref && lib.contains_key(&o.target) {
                m.referenced.insert(o.target.clone());
            }
        }
        if !feature_on("block_ref_in_container") && occ_all.iter().any(|o| o.block_ref && (o.in_quote || o.in_item)) {
            return Verdict::Discard("known-domain: block reference inside a quote or list item".into());
        }
        // cycles among notes: known-finding domain
        if !feature_on("doc_level_include") && m.doc_includes.iter().any(|(_, v)| v.iter().any(|t| lib.contains_key(t))) {
            return Verdict::Discard("known-domain: a note is included by a block reference that precedes any heading".into());
        }
        let has_cycle = {
            // is some note reachable from itself through includes?
            let mut inc: BTreeMap<String, BTreeSet<String>> = BTreeMap::new();
            for h in &m.hs {
                inc.entry(h.key.clone()).or_default().extend(h.includes.iter().cloned());
            }
            for (k, v) in &m.doc_includes {
                inc.entry(k.clone()).or_default().extend(v.iter().cloned());
            }
            let mut cyc = false;
            for start in lib.keys() {
                let mut seen = BTreeSet::new();
                let mut stack: Vec<String> = inc.get(start).map(|s| s.iter().cloned().collect()).unwrap_or_default();
                while let Some(k) = stack.pop() {
                    if &k == start {
                        cyc = true;
                        break;
                    }
                    if seen.insert(k.clone()) {
                        if let Some(n) = inc.get(&k) {
                            stack.extend(n.iter().cloned());
                        }
                    }
                }
            }
            cyc
        };
        // the finding is about cycles that no unincluded note leads into: every note must be
        // reachable, through includes, from a note nobody includes
        let rootless = {
            let mut inc: BTreeMap<String, BTreeSet<String>> = BTreeMap::new();
            for h in &m.hs {
                inc.entry(h.key.clone()).or_default().extend(h.includes.iter().cloned());
            }
            for (k, v) in &m.doc_includes {
                inc.entry(k.clone()).or_default().extend(v.iter().cloned());
            }
            let mut reached: BTreeSet<String> = lib.keys().filter(|k| !m.referenced.contains(*k)).cloned().collect();
            let mut stack: Vec<String> = reached.iter().cloned().collect();
            while let Some(k) = stack.pop() {
                if let Some(n) = inc.get(&k) {
                    for t in n {
                        if lib.contains_key(t) && reached.insert(t.clone()) {
                            stack.push(t.clone());
                        }
                    }
                }
            }
            lib.keys().any(|k| !reached.contains(k))
        };
        if rootless && !feature_on("include_cycle") {
            return Verdict::Discard("known-domain: notes include each other in a cycle that no unincluded note leads into".into());
        }
        let mut expected_chains = chains(&m);
        expected_chains.sort();
        expected_chains.dedup();
        if expected_chains.len() >= 19_000 {
            return Verdict::Discard("path set too large".into());
        }
        let render = |c: &Vec<usize>| -> (Vec<String>, String, usize) {
            let last = &m.hs[*c.last().unwrap()];
            (c.iter().map(|i| m.hs[*i].text.clone()).collect(), last.key.clone(), last.line)
        };
        let expected: BTreeSet<(Vec<String>, String, usize)> = expected_chains.iter().map(render).collect();
        // two doors: a database loaded with the library, and one that reaches the same library
        // through edits (every note first holds its neighbour's text and is then updated to its
        // own, last note first; the first note is sent once more unchanged)
        let fresh = Database::new(api::to_state(&lib), false, api::opts(""));
        let edited = {
            let keys: Vec<String> = lib.keys().cloned().collect();
            let mut shifted = Lib::new();
            for (i, k) in keys.iter().enumerate() {
                shifted.insert(k.clone(), lib[&keys[(i + 1) % keys.len()]].clone());
            }
            let mut db = Database::new(api::to_state(&shifted), false, api::opts(""));
            for k in keys.iter().rev() {
                db.update_document(liwe::model::Key::from_file_name(k), lib[k].clone());
            }
            if let Some(k) = keys.first() {
                db.update_document(liwe::model::Key::from_file_name(k), lib[k].clone());
            }
            db
        };
        for (door, db) in [("", &fresh), ("history|", &edited)] {
        let g = db.graph();
        let got: BTreeSet<(Vec<String>, String, usize)> = g
            .paths()
            .iter()
            .map(|p| {
                (
                    p.ids().iter().map(|id| g.get_text(*id).trim().to_string()).collect(),
                    g.node(p.target()).node_key().to_string(),
                    g.node_line_range(p.target()).map(|r| r.start).unwrap_or(usize::MAX),
                )
            })
            .collect();
        let dump = |lib: &Lib| {
            let mut d = String::new();
            for (k, v) in lib {
                d.push_str(&format!("--- {}\n{}\n", k, v.chars().take(1200).collect::<String>()));
            }
            d
        };
        if got != expected {
            let missing: Vec<_> = expected.difference(&got).take(4).collect();
            let extra: Vec<_> = got.difference(&expected).take(4).collect();
            let kind = if !extra.is_empty() { "unreal-path" } else { "missing-path" };
            return Verdict::fail(
                format!("c18|{}{}", door, kind),
                format!("listed paths differ from the model: missing {:?}\nnot real {:?}\n{}", missing, extra, dump(&lib)),
            );
        }
        // completeness, stated on its own: every heading outside lists and quotes ends a listed path
        let ends: BTreeSet<(String, usize)> = got.iter().map(|(_, k, l)| (k.clone(), *l)).collect();
        for h in &m.hs {
            if !ends.contains(&(h.key.clone(), h.line)) {
                return Verdict::fail(
                    format!("c18|{}heading-unlisted", door),
                    format!("heading {:?} of note {} (line {}) is the last element of no listed path
{}", h.text, h.key, h.line, dump(&lib)),
                );
            }
        }
        // ranks
        let occ = model::link_occurrences(&lib);
        let (eb, ei) = model::backlinks(&occ);
        let rank_of = |c: &Vec<usize>| -> usize {
            let last = &m.hs[*c.last().unwrap()];
            if last.primary {
                eb.get(&last.key).map(|s| s.len()).unwrap_or(0) + ei.get(&last.key).map(|s| s.len()).unwrap_or(0)
            } else {
                0
            }
        };
        let matcher = SkimMatcherV2::default();
        for q in &case.queries {
            let res = db.global_search(q);
            if res.len() > 100 {
                return Verdict::fail(format!("c18|{}more-than-100", door), format!("query {:?}: {} entries", q, res.len()));
            }
            let key_of = |text: &str, rank: usize| -> (i64, usize, usize) {
                // (a matcher per text: SkimMatcherV2 carries state from one call to the next when
                // the text is not ASCII)
                let _ = &matcher;
                let score = if q.is_empty() { 0 } else { SkimMatcherV2::default().fuzzy_match(text, q).unwrap_or(0) };
                (score, text.len(), rank)
            };
            // documented order as a sort key (smaller = earlier)
            let order = |k: &(i64, usize, usize)| -> (i64, i64, i64) {
                if q.is_empty() {
                    (-(k.2 as i64), k.1 as i64, 0)
                } else {
                    (-k.0, k.1 as i64, -(k.2 as i64))
                }
            };
            let mut all: Vec<(i64, i64, i64)> = expected_chains
                .iter()
                .map(|c| {
                    let text = c.iter().map(|i| m.hs[*i].text.clone()).collect::<Vec<_>>().join(" ");
                    order(&key_of(&text, rank_of(c)))
                })
                .collect();
            all.sort();
            all.truncate(100);
            let got_keys: Vec<(i64, i64, i64)> = res.iter().map(|p| order(&key_of(&p.search_text, p.node_rank))).collect();
            if got_keys != all {
                let first = got_keys.iter().zip(all.iter()).position(|(a, b)| a != b).unwrap_or(got_keys.len().min(all.len()));
                return Verdict::fail(
                    format!("c18|{}search-order", door),
                    format!(
                        "query {:?}: result keys differ from the first {} keys of all paths under the documented order at position {}: got {:?}, expected {:?} ({} results, {} expected)\n{}",
                        q, all.len(), first, got_keys.get(first), all.get(first), got_keys.len(), all.len(), dump(&lib)
                    ),
                );
            }
        }
        }
        if expected_chains.len() > 100 {
            stats.class("more-than-100-paths");
        }
        let shared = m.referenced.iter().any(|t| {
            m.hs.iter().filter(|h| h.includes.contains(t)).count() + m.doc_includes.values().filter(|v| v.contains(t)).count() >= 2
        });
        if shared {
            stats.class("shared-target");
        }
        if has_cycle {
            stats.class("cycle");
        }
        Verdict::Pass { nontrivial: shared || has_cycle || expected_chains.len() > 100 }
    }
    fn sample(&self, case: &PathCase) -> Value {
        json!({"notes": case.notes.iter().map(|(k, t)| (k.clone(), t.chars().take(400).collect::<String>())).collect::<Vec<_>>(), "queries": case.queries})
    }
}


