//! C15 — relative links written by iwe resolve back to the note they were written for.

use crate::drive::api::{self, Lib};
use crate::drive::lsp::{self, Server};
use crate::framework::*;
use crate::pathalg;
use crate::scan;
use liwe::graph::{Graph, GraphContext};
use liwe::model::Key;
use proptest::collection::vec;
use proptest::prelude::*;
use serde::{Deserialize, Serialize};
use serde_json::{json, Value};

pub struct C15;

#[derive(Clone, Debug, Serialize, Deserialize)]
pub struct PathCase15 {
    /// target note key
    pub k: String,
    /// directory of the linking note ("" = library root)
    pub d: String,
    /// a link url as a user might have typed it (with ./, ../, .md forms), relative to d
    pub u: String,
    pub ext: String,
    /// also run the export and completion checks (needs a library / server)
    pub heavy: bool,
}

pub const SEGS: &[&str] = &["a", "ab", "b", "notes", "notes-archive", "notesindex", "d", "e", "v1.2", "\u{fc}ber", "x_y"];

fn seg() -> impl Strategy<Value = String> {
    proptest::sample::select(SEGS.to_vec()).prop_map(|s| s.to_string())
}

fn path(min: usize, max: usize) -> impl Strategy<Value = String> {
    vec(seg(), min..=max).prop_map(|v| v.join("/"))
}

impl Property for C15 {
    type Case = PathCase15;
    fn id(&self) -> &'static str {
        "C15"
    }
    fn rule(&self) -> String {
        "pairs (note key K, linking directory D) built from a segment alphabet with shared prefixes, dots and non-ASCII, depth 0-5: equal, nested either way, siblings, disjoint, generated both independently and as relatives of each other; urls u with './', '../' and '.md' forms; laws against the harness's own path algebra: from_rel_link_url(K.to_rel_link_url(D), D) == K; the url written for from_rel_link_url(u, D) resolves from D like u; a note in D holding block references to K at top level, under a heading, inside a quote and in a list item continuation is exported (both refs_extension settings) and every written destination, re-scanned independently, resolves from D to K; completion items requested from a note in D carry links that resolve to existing notes and cover all of them; random_key(D) lies in D and is unused; non-trivial = D is not the root and K lies outside D (a '..' is needed)".into()
    }
    fn assumptions(&self) -> Vec<String> {
        vec!["keys are normalised relative paths without '.' and '..' segments and without a '.md' suffix".into()]
    }
    fn cases(&self, tier: Tier) -> u64 {
        match tier {
            Tier::Quick => 40_000,
            Tier::Thorough => 2_000_000,
        }
    }
    fn max_shrink_iters(&self) -> u32 {
        2000
    }
    fn strategy(&self, _features: &Features, _tier: Tier) -> BoxedStrategy<PathCase15> {
        let independent = (path(1, 5), path(0, 4));
        // relatives: D = prefix of K's directory, K below D, siblings
        let related = (path(0, 3), path(0, 2), path(1, 2)).prop_map(|(common, dtail, ktail)| {
            let join = |a: &str, b: &str| if a.is_empty() { b.to_string() } else if b.is_empty() { a.to_string() } else { format!("{}/{}", a, b) };
            (join(&common, &ktail), join(&common, &dtail))
        });
        let kd = prop_oneof![1 => independent, 2 => related];
        let url = (path(1, 3), 0u8..6, 0u8..3).prop_map(|(p, form, ups)| {
            let mut u = p;
            match form {
                0 => u = format!("./{}", u),
                1 => u = format!("{}.md", u),
                2 => u = format!("./{}.md", u),
                3 => {
                    let segs: Vec<&str> = u.split('/').collect();
                    if segs.len() > 1 {
                        u = format!("{}/./{}", segs[0], segs[1..].join("/"));
                    }
                }
                _ => {}
            }
            for _ in 0..ups {
                u = format!("../{}", u);
            }
            u
        });
        (kd, url, prop_oneof![Just(String::new()), Just(".md".to_string())], 0u8..40)
            .prop_map(|((k, d), u, ext, heavy)| PathCase15 { k, d, u, ext, heavy: heavy == 0 })
            .boxed()
    }
    fn check(&self, case: &PathCase15, stats: &mut Stats) -> Verdict {
        let k = Key::from_file_name(&case.k);
        let d = case.d.as_str();
        // law 1
        let written = k.to_rel_link_url(d);
        let back = Key::from_rel_link_url(&written, d);
        if back.to_string() != case.k {
            return Verdict::fail(
                "c15|law1:write-read",
                format!("K={:?} D={:?}: to_rel_link_url gives {:?}, which reads back as {:?}", case.k, d, written, back.to_string()),
            );
        }
        // and the harness's algebra agrees on what the written url means
        let mine = pathalg::resolve(d, pathalg::strip_md(&written));
        if mine != case.k {
            return Verdict::fail(
                "c15|law1:written-url-resolves-elsewhere",
                format!("K={:?} D={:?}: the written url {:?} resolves from D to {:?}", case.k, d, written, mine),
            );
        }
        // law 2
        let target = pathalg::resolve(d, pathalg::strip_md(&case.u));
        if !target.starts_with("..") && !target.is_empty() {
            let key = Key::from_rel_link_url(&case.u, d);
            if key.to_string() != target {
                return Verdict::fail(
                    "c15|law2:read",
                    format!("url {:?} from D={:?} is keyed {:?}, the path algebra says {:?}", case.u, d, key.to_string(), target),
                );
            }
            let rewritten = key.to_rel_link_url(d);
            let again = pathalg::resolve(d, pathalg::strip_md(&rewritten));
            if again != target {
                return Verdict::fail(
                    "c15|law2:rewrite",
                    format!("url {:?} from D={:?} (-> {:?}) is re-written as {:?}, which resolves to {:?}", case.u, d, target, rewritten, again),
                );
            }
            stats.class("law2");
        }
        let needs_up = !d.is_empty() && !(case.k.starts_with(&format!("{}/", d)));
        if needs_up {
            stats.class("needs-dotdot");
        }
        if case.heavy {
            stats.class("heavy");
            let holder = if d.is_empty() { "holder-note".to_string() } else { format!("{}/holder-note", d) };
            if holder == case.k {
                return Verdict::Pass { nontrivial: false };
            }
            let link = pathalg::relative(d, &case.k);
            let text = format!(
                "# holder\n\n[one]({l})\n\n## sub\n\n[two]({l})\n\n> [three]({l})\n\n- item\n\n  [four]({l})\n\n1. first\n   - nested\n\n     [five]({l})\n",
                l = link
            );
            let mut lib = Lib::new();
            lib.insert(holder.clone(), text.clone());
            lib.insert(case.k.clone(), "# Target title\n\nbody\n".to_string());
            lib.insert("zz-other".into(), "# Other\n".to_string());
            let out = api::format_library(&lib, &case.ext);
            let exported = out.get(&holder).cloned().unwrap_or_default();
            let s = scan::scan(&exported);
            let mut dests = vec![];
            scan::walk(&s.blocks, &mut |b, _| {
                let mut ls = vec![];
                scan::links_of(&b.inlines, &mut ls);
                for l in ls {
                    if let scan::SInline::Link { dest, .. } = l {
                        dests.push(dest.clone());
                    }
                }
            });
            if dests.len() != 5 {
                return Verdict::fail("c15|export:link-count", format!("expected 5 links in the exported holder, found {:?}\ninput:\n{}\noutput:\n{}", dests, text, exported));
            }
            for (i, dest) in dests.iter().enumerate() {
                let r = pathalg::resolve(d, pathalg::strip_md(dest));
                if r != case.k {
                    let place = ["top level", "under a sub-heading", "inside a quote", "in a list item", "in a nested list item"][i];
                    return Verdict::fail(
                        format!("c15|export:retargeted:{}", place.replace(' ', "-")),
                        format!("block reference {} to {:?} from {:?} was written as {:?}, which resolves to {:?}\ninput:\n{}\noutput:\n{}", place, case.k, holder, dest, r, text, exported),
                    );
                }
            }
            // random_key
            let g = Graph::import(&api::to_state(&lib), api::opts(&case.ext));
            let rk = (&g).random_key(d).to_string();
            if pathalg::dir_of(&rk) != d || lib.contains_key(&rk) {
                return Verdict::fail("c15|random-key", format!("random_key({:?}) = {:?}", d, rk));
            }
            // completion
            let mut srv = Server::start(&lib, &case.ext, false, "");
            let a = srv.request(
                "textDocument/completion",
                json!({"textDocument": {"uri": lsp::uri_of(&holder)}, "position": {"line": 0, "character": 0}}),
            );
            let items = a.value().and_then(|v| v.get("items")).and_then(|i| i.as_array()).cloned();
            let r = srv.finish("c15");
            if let Err((sig, detail)) = r {
                return Verdict::fail(sig, detail);
            }
            match items {
                Some(items) => {
                    let mut seen = std::collections::BTreeSet::new();
                    for it in &items {
                        let ins = it.get("insertText").and_then(|t| t.as_str()).unwrap_or("");
                        let sc = scan::scan(ins);
                        let mut ds = vec![];
                        scan::walk(&sc.blocks, &mut |b, _| {
                            let mut ls = vec![];
                            scan::links_of(&b.inlines, &mut ls);
                            for l in ls {
                                if let scan::SInline::Link { dest, .. } = l {
                                    ds.push(dest.clone());
                                }
                            }
                        });
                        if ds.len() != 1 {
                            return Verdict::fail("c15|completion:shape", format!("completion insert text {:?} holds {} links", ins, ds.len()));
                        }
                        let r = pathalg::resolve(d, pathalg::strip_md(&ds[0]));
                        if !lib.contains_key(&r) {
                            return Verdict::fail(
                                "c15|completion:dangling",
                                format!("completion from {:?} offers {:?}, which resolves to {:?}: no such note (notes: {:?})", holder, ins, r, lib.keys().collect::<Vec<_>>()),
                            );
                        }
                        seen.insert(r);
                    }
                    if seen.len() != lib.len() {
                        return Verdict::fail("c15|completion:incomplete", format!("completion from {:?} reaches {:?} of {:?}", holder, seen, lib.keys().collect::<Vec<_>>()));
                    }
                }
                None => return Verdict::fail("c15|completion:no-answer", format!("{:?}", a)),
            }
        }
        Verdict::Pass { nontrivial: needs_up }
    }
}
