//! Shared case shape for the single-document properties (C01, C02, C03, C07).

use crate::framework::Features;
use crate::gen::doc::{self, DocCfg};
use proptest::prelude::*;
use serde::{Deserialize, Serialize};

#[derive(Clone, Debug, Serialize, Deserialize)]
pub struct DocCase {
    /// the note text
    pub text: String,
    /// markdown.refs_extension
    pub ext: String,
    /// 0: from_markdown+to_markdown, 1: import+export, 2: import of `prev` then update_key, 3: LSP formatting
    pub door: u8,
    /// an earlier version of the note (used by door 2)
    #[serde(default)]
    pub prev: String,
}

pub fn doc_case(features: &Features, max_blocks: usize, doors: u8) -> BoxedStrategy<DocCase> {
    let mut cfg = DocCfg::new(features);
    cfg.max_blocks = max_blocks;
    let mut small = cfg.clone();
    small.max_blocks = 3;
    (doc::text(&cfg), prop_oneof![Just(String::new()), Just(".md".to_string())], 0u8..doors, doc::text(&small))
        .prop_map(|(text, ext, door, prev)| DocCase { text, ext, door, prev: if door == 2 { prev } else { String::new() } })
        .boxed()
}

pub fn show(text: &str) -> String {
    let mut s = String::new();
    for l in text.split('\n') {
        s.push_str("    ");
        s.push_str(&l.replace('\r', "\\r").replace('\t', "\\t"));
        s.push('\n');
    }
    s
}
