//! Shared case shape for the single-document properties (C01, C02, C03, C07).

use crate::framework::Features;
use crate::gen::doc::{self, DocCfg};
use proptest::prelude::*;
use serde::{Deserialize, Serialize};

#[derive(Clone, Debug, Serialize, Deserialize)]
pub struct DocCase {
    /// the note text
    pub text: String,
    /// markdown.refs_extension
    pub ext: String,
    /// 0: from_markdown+to_markdown, 1: import+export, 2: import then update_key, 3: LSP formatting
    pub door: u8,
}

pub fn doc_case(features: &Features, max_blocks: usize, doors: u8) -> BoxedStrategy<DocCase> {
    let mut cfg = DocCfg::new(features);
    cfg.max_blocks = max_blocks;
    (doc::text(&cfg), prop_oneof![Just(String::new()), Just(".md".to_string())], 0u8..doors)
        .prop_map(|(text, ext, door)| DocCase { text, ext, door })
        .boxed()
}

pub fn show(text: &str) -> String {
    let mut s = String::new();
    for l in text.split('\n') {
        s.push_str("    ");
        s.push_str(&l.replace('\r', "\\r").replace('\t', "\\t"));
        s.push('\n');
    }
    s
}
