//! C20 — the document graph stays a well-formed forest after every operation.

use crate::drive::api::{self, Lib};
use crate::framework::*;
use crate::gen::library::{self, LibVersions};
use crate::scan::{self, BKind, SBlock};
use liwe::graph::graph_node::GraphNode;
use liwe::graph::{Graph, GraphContext};
use liwe::model::node::{NodeIter, NodePointer};
use liwe::model::Key;
use proptest::collection::vec;
use proptest::prelude::*;
use serde::{Deserialize, Serialize};
use serde_json::{json, Value};
use std::collections::{BTreeMap, BTreeSet};

pub struct C20;

#[derive(Clone, Debug, Serialize, Deserialize)]
pub enum GOp {
    /// update_key(existing key idx, version)
    Update(u8, u8),
    /// update_key(new key idx, text of (key idx, version))
    Insert(u8, u8, u8),
    /// update_key(existing, "") - empty text
    Clear(u8),
    /// the same text again
    Resave(u8),
    /// new_patch + build_key_from_iter(collect(k).iter()) as the server does for formatting; the
    /// patch graph is checked and dropped
    Patch(u8),
    /// patch built through GraphPatch::add_key from the collected tree
    AddKey(u8),
}

#[derive(Clone, Debug, Serialize, Deserialize)]
pub struct GraphCase {
    pub lib: LibVersions,
    pub ops: Vec<GOp>,
    /// the texts are arbitrary bytes (byte-level fuzz target): the walk-order comparison against the
    /// scanner, which is only defined on the generator's grammar, is left out
    #[serde(default)]
    pub raw: bool,
}

/// Byte-level case: the fuzzer's bytes are the notes themselves. Byte 0: flags (refs_extension,
/// CRLF), byte 1: number of operations (1-8), then two bytes per operation; the rest is cut at 0xFF
/// bytes (never part of UTF-8) into up to six texts, three versions each for the notes `a` and `d/b`.
pub fn raw_case(data: &[u8]) -> GraphCase {
    let flag = data.first().copied().unwrap_or(0);
    let n_ops = 1 + (data.get(1).copied().unwrap_or(0) % 8) as usize;
    let mut ops = vec![];
    for i in 0..n_ops {
        let a = data.get(2 + 2 * i).copied().unwrap_or(i as u8);
        let b = data.get(3 + 2 * i).copied().unwrap_or(0);
        let (k, v) = (b & 1, (b >> 1) % 3);
        ops.push(match a % 10 {
            0..=4 => GOp::Update(k, v),
            5 => GOp::Insert(b >> 4, k, v),
            6 => GOp::Clear(k),
            7 => GOp::Resave(k),
            8 => GOp::Patch(k),
            _ => GOp::AddKey(k),
        });
    }
    let body = data.get(2 + 2 * n_ops..).unwrap_or(&[]);
    let mut texts: Vec<String> = body
        .splitn(6, |b| *b == 0xFF)
        .map(|seg| {
            let t = String::from_utf8_lossy(seg).to_string();
            if flag & 2 != 0 {
                t.replace('\n', "\r\n")
            } else {
                t
            }
        })
        .collect();
    let have = texts.len().max(1);
    if texts.is_empty() {
        texts.push(String::new());
    }
    for i in have..6 {
        let t = texts[i % have].clone();
        texts.push(t);
    }
    let b = texts.split_off(3);
    GraphCase {
        lib: LibVersions { notes: vec![("a".into(), texts), ("d/b".into(), b)], ext: if flag & 1 != 0 { ".md".into() } else { String::new() } },
        ops,
        raw: true,
    }
}

pub const NEW_KEYS: &[&str] = &["zz-new", "d/zz-new"];

/// Check every forest invariant. `texts`: current text per key (for the order check).
pub fn check_forest(g: &Graph, texts: &Lib, check_order: bool) -> Result<BTreeMap<String, Vec<u64>>, (String, String)> {
    let nodes = g.nodes();
    let n = nodes.len() as u64;
    let mut owner: BTreeMap<u64, String> = BTreeMap::new();
    let mut per_key: BTreeMap<String, Vec<u64>> = BTreeMap::new();
    let keys: BTreeSet<String> = g.keys().iter().map(|k| k.to_string()).collect();
    let expect: BTreeSet<String> = texts.keys().cloned().collect();
    if keys != expect {
        return Err(("c20|keys".into(), format!("graph keys {:?}, expected {:?}", keys, expect)));
    }
    for k in &keys {
        let key = Key::from_file_name(k);
        let root = match g.get_node_id(&key) {
            Some(r) => r,
            None => return Err(("c20|root-missing".into(), format!("no root for key {}", k))),
        };
        if root >= n {
            return Err(("c20|out-of-range".into(), format!("root {} of {} out of range {}", root, k, n)));
        }
        match g.graph_node(root) {
            GraphNode::Document(d) if d.key().to_string() == *k => {}
            other => return Err(("c20|root-not-document".into(), format!("root {} of {} is {:?}", root, k, other))),
        }
        // iterative DFS: (id, expected prev)
        let mut order = vec![];
        let mut stack: Vec<(u64, Option<u64>)> = vec![(root, None)];
        while let Some((id, expected_prev)) = stack.pop() {
            if id >= n {
                return Err(("c20|out-of-range".into(), format!("pointer to node {} out of range {} in note {}", id, n, k)));
            }
            let node = g.graph_node(id);
            if node.is_empty() {
                return Err(("c20|pointer-to-tombstone".into(), format!("note {}: node {} is reachable but removed (expected prev {:?})", k, id, expected_prev)));
            }
            if let Some(o) = owner.get(&id) {
                return Err(("c20|shared-node".into(), format!("node {} reachable twice: from {} and from {}", id, o, k)));
            }
            owner.insert(id, k.clone());
            order.push(id);
            if let Some(p) = expected_prev {
                if node.prev_id() != Some(p) {
                    return Err(("c20|prev-mismatch".into(), format!("note {}: node {} has prev {:?}, reached from {}", k, id, node.prev_id(), p)));
                }
            }
            // next first so that child is visited first (pre-order)
            if let Some(nx) = node.next_id() {
                stack.push((nx, Some(id)));
            }
            if let Some(c) = node.child_id() {
                stack.push((c, Some(id)));
            }
        }
        per_key.insert(k.clone(), order);
    }
    // orphans
    for (i, node) in nodes.iter().enumerate() {
        if !node.is_empty() && !owner.contains_key(&(i as u64)) {
            return Err(("c20|orphan".into(), format!("live node {} ({:?}) is not reachable from any note root", i, node)));
        }
        if !node.is_empty() && node.id() != i as u64 {
            return Err(("c20|id-mismatch".into(), format!("node at index {} carries id {}", i, node.id())));
        }
    }
    // navigation answers agree with ownership
    for (id, k) in &owner {
        let p = g.node(*id);
        let doc_key = p.to_document().and_then(|d| d.document_key()).map(|k| k.to_string());
        if doc_key.as_deref() != Some(k.as_str()) {
            return Err(("c20|to-document".into(), format!("node {} belongs to {} but to_document says {:?}", id, k, doc_key)));
        }
        if g.key_of(*id).to_string() != *k {
            return Err(("c20|key-of".into(), format!("node {} belongs to {} but key_of says {}", id, k, g.key_of(*id))));
        }
        if !g.graph_node(*id).is_document() {
            match p.to_parent() {
                Some(par) => {
                    let pid = par.id().unwrap_or(u64::MAX);
                    if owner.get(&pid) != Some(k) {
                        return Err(("c20|to-parent".into(), format!("node {} of {}: parent {} belongs to {:?}", id, k, pid, owner.get(&pid))));
                    }
                }
                None => return Err(("c20|to-parent".into(), format!("node {} of {} has no parent", id, k))),
            }
        }
    }
    if check_order {
        for (k, order) in &per_key {
            let text = texts.get(k).cloned().unwrap_or_default();
            // (an item that starts with a code block, quote, table or rule has an empty text)
            let want: Vec<String> = scan_texts(&text).into_iter().filter(|t| !t.is_empty()).collect();
            let got: Vec<String> = order
                .iter()
                .filter_map(|id| {
                    let node = g.graph_node(*id);
                    if matches!(node, GraphNode::Section(_) | GraphNode::Leaf(_)) {
                        Some(scan::collapse_ws(&g.get_text(*id)))
                    } else {
                        None
                    }
                })
                .filter(|t| !t.is_empty())
                .collect();
            if got != want {
                return Err(("c20|walk-order".into(), format!("note {}: walk gives {:?}\nscan gives {:?}\ntext:\n{}", k, got, want, text)));
            }
        }
    }
    Ok(per_key)
}

/// plain texts of headings and non-reference paragraphs in document order (pre-order)
fn scan_texts(text: &str) -> Vec<String> {
    let s = scan::scan(text);
    let mut out = vec![];
    fn rec(blocks: &[SBlock], parent_item: bool, out: &mut Vec<String>) {
        for (i, b) in blocks.iter().enumerate() {
            match b.kind {
                BKind::Heading(_) => out.push(scan::collapse_ws(&scan::plain_text(&b.inlines))),
                BKind::Para => {
                    let lead = parent_item && i == 0;
                    let is_ref = !lead
                        && b.inlines.len() == 1
                        && matches!(&b.inlines[0], scan::SInline::Link { dest, .. } if scan::is_ref_url(dest));
                    if !is_ref {
                        out.push(scan::collapse_ws(&scan::plain_text(&b.inlines)));
                    }
                }
                BKind::Quote | BKind::List { .. } => rec(&b.children, false, out),
                BKind::Item => rec(&b.children, true, out),
                _ => {}
            }
        }
    }
    rec(&s.blocks, false, &mut out);
    out
}

fn gop() -> impl Strategy<Value = GOp> {
    prop_oneof![
        6 => (0u8..8, 0u8..3).prop_map(|(k, v)| GOp::Update(k, v)),
        1 => (0u8..2, 0u8..8, 0u8..3).prop_map(|(n, k, v)| GOp::Insert(n, k, v)),
        1 => (0u8..8).prop_map(GOp::Clear),
        1 => (0u8..8).prop_map(GOp::Resave),
        2 => (0u8..8).prop_map(GOp::Patch),
        1 => (0u8..8).prop_map(GOp::AddKey),
    ]
}

impl Property for C20 {
    type Case = GraphCase;
    fn id(&self) -> &'static str {
        "C20"
    }
    fn rule(&self) -> String {
        "an imported generated library and a history of 1-10 operations: update_key of an existing note (another version, the empty text, the same text again), update_key of a new key, and patch graphs built as the server builds them (new_patch + build_key_from_iter(collect(k).iter()); GraphPatch::add_key from the collected tree); after every step an external walker checks over nodes()/graph_node()/keys()/NodePointer: every key's root is a Document node carrying that key; a DFS over child/next from the roots visits every live node exactly once (disjoint, acyclic, no orphan, no pointer to a removed node or out of range); each child's prev is its parent and each next's prev its predecessor; to_document, key_of and to_parent agree with the DFS ownership; the walk order of headings and paragraphs equals the order in an independent scan of the note's text; ids only grow and the nodes of untouched notes keep their ids; non-trivial = an update of an existing note followed by another operation on a different note".into()
    }
    fn assumptions(&self) -> Vec<String> {
        vec!["block references and tables/code/rules are skipped in the order comparison (their text is not a line)".into()]
    }
    fn domain_off(&self) -> Vec<&'static str> {
        vec!["item_first_heading", "html_block", "inline_html"]
    }
    fn cases(&self, tier: Tier) -> u64 {
        match tier {
            Tier::Quick => 4000,
            Tier::Thorough => 100_000,
        }
    }
    fn strategy(&self, features: &Features, _tier: Tier) -> BoxedStrategy<GraphCase> {
        (library::library_versions(features, 5, 5, 3), vec(gop(), 1..10))
            .prop_map(|(lib, ops)| GraphCase { lib, ops, raw: false })
            .boxed()
    }
    fn check(&self, case: &GraphCase, stats: &mut Stats) -> Verdict {
        for (_, vs) in &case.lib.notes {
            for t in vs {
                if let Some(r) = crate::canon::crash_domain_discard(&scan::scan(t)) {
                    return Verdict::Discard(r);
                }
            }
        }
        let versions: BTreeMap<String, Vec<String>> = case.lib.notes.iter().cloned().collect();
        let base: Vec<String> = case.lib.notes.iter().map(|(k, _)| k.clone()).collect();
        let mut model: Lib = case.lib.notes.iter().map(|(k, v)| (k.clone(), v[0].clone())).collect();
        let mut g = Graph::import(&api::to_state(&model), api::opts(&case.lib.ext));
        let fail = |step: String, e: (String, String), ops: &Vec<GOp>| Verdict::fail(e.0, format!("{}: {}\nhistory: {:?}", step, e.1, ops));
        let order = !case.raw;
        let mut prev = match check_forest(&g, &model, order) {
            Ok(p) => p,
            Err(e) => return fail("after import".into(), e, &case.ops),
        };
        let mut last_updated: Option<String> = None;
        let mut nontrivial = false;
        for (n, op) in case.ops.iter().enumerate() {
            let len_before = g.nodes().len();
            let mut touched: Option<String> = None;
            match op {
                GOp::Update(k, v) => {
                    let key = base[(*k as usize) % base.len()].clone();
                    let t = versions[&key][(*v as usize) % 3].clone();
                    g.update_key(Key::from_file_name(&key), &t);
                    model.insert(key.clone(), t);
                    touched = Some(key);
                }
                GOp::Insert(nk, k, v) => {
                    let key = NEW_KEYS[(*nk as usize) % NEW_KEYS.len()].to_string();
                    let src = &base[(*k as usize) % base.len()];
                    let t = versions[src][(*v as usize) % 3].clone();
                    g.update_key(Key::from_file_name(&key), &t);
                    model.insert(key.clone(), t);
                    touched = Some(key);
                    stats.class("op:insert-new-key");
                }
                GOp::Clear(k) => {
                    let key = base[(*k as usize) % base.len()].clone();
                    g.update_key(Key::from_file_name(&key), "");
                    model.insert(key.clone(), String::new());
                    touched = Some(key);
                    stats.class("op:clear");
                }
                GOp::Resave(k) => {
                    let key = base[(*k as usize) % base.len()].clone();
                    let t = model[&key].clone();
                    g.update_key(Key::from_file_name(&key), &t);
                    touched = Some(key);
                }
                GOp::Patch(k) | GOp::AddKey(k) => {
                    let key = base[(*k as usize) % base.len()].clone();
                    let kk = Key::from_file_name(&key);
                    let mut patch = g.new_patch();
                    let tree = (&g).collect(&kk);
                    if matches!(op, GOp::Patch(_)) {
                        patch.build_key_from_iter(&kk, tree.iter());
                    } else {
                        use liwe::graph::GraphPatch;
                        patch.add_key(&kk, tree.iter());
                    }
                    let mut one = Lib::new();
                    one.insert(key.clone(), model[&key].clone());
                    if let Err(e) = check_forest(&patch, &one, false) {
                        return fail(format!("patch graph at step {} ({:?})", n, op), e, &case.ops);
                    }
                    stats.class("op:patch");
                }
            }
            if g.nodes().len() < len_before {
                return Verdict::fail("c20|ids-shrank", format!("step {} ({:?}): arena went from {} to {} nodes\nhistory: {:?}", n, op, len_before, g.nodes().len(), case.ops));
            }
            let now = match check_forest(&g, &model, order) {
                Ok(p) => p,
                Err(e) => return fail(format!("after step {} ({:?})", n, op), e, &case.ops),
            };
            // untouched notes keep their nodes
            for (k, ids) in &prev {
                if Some(k) != touched.as_ref() {
                    if now.get(k) != Some(ids) {
                        return Verdict::fail(
                            "c20|other-note-disturbed",
                            format!("step {} ({:?}) touched {:?} but the nodes of {} changed from {:?} to {:?}\nhistory: {:?}", n, op, touched, k, ids, now.get(k), case.ops),
                        );
                    }
                }
            }
            if let (Some(t), Some(l)) = (&touched, &last_updated) {
                if t != l {
                    nontrivial = true;
                }
            }
            if touched.is_some() {
                last_updated = touched;
            }
            prev = now;
        }
        Verdict::Pass { nontrivial }
    }
    fn sample(&self, case: &GraphCase) -> Value {
        json!({"keys": case.lib.notes.iter().map(|(k, _)| k.clone()).collect::<Vec<_>>(), "ops": format!("{:?}", case.ops)})
    }
}
