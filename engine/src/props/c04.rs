//! C04 — incremental edits leave the same library as a fresh start.

use crate::drive::api::{self, Lib};
use crate::drive::lsp::Server;
use crate::framework::*;
use crate::gen::library::{self, LibVersions};
use crate::scan;
use liwe::database::Database;
use liwe::graph::GraphContext;
use liwe::model::node::NodePointer;
use liwe::model::Key;
use proptest::collection::vec;
use proptest::prelude::*;
use serde::{Deserialize, Serialize};
use serde_json::{json, Value};
use std::collections::BTreeMap;

pub struct C04;

#[derive(Clone, Debug, Serialize, Deserialize)]
pub enum Variant {
    /// one of the generated versions
    Version(u8),
    /// the current text without its first block (removes the title when there is one)
    DropFirstBlock,
    /// the current text without its last block (often the last link)
    DropLastBlock,
    Empty,
    /// current text plus one more paragraph
    Append,
    /// the current text with a table put in front of its last block
    TableBeforeLast,
}

#[derive(Clone, Debug, Serialize, Deserialize)]
pub enum Op {
    Change(u8, Variant),
    Save(u8, Option<Variant>),
    /// didChange on a uri the server has not seen: a new note (index into NEW_KEYS)
    New(u8, u8),
}

pub const NEW_KEYS: &[&str] = &["fresh", "d/fresh", "x/y/fresh"];

#[derive(Clone, Debug, Serialize, Deserialize)]
pub struct HistCase {
    pub lib: LibVersions,
    pub ops: Vec<Op>,
    /// 0 = library API (Database), 1 = LSP server
    pub door: u8,
}

fn variant() -> impl Strategy<Value = Variant> {
    prop_oneof![
        5 => (1u8..3).prop_map(Variant::Version),
        2 => Just(Variant::DropFirstBlock),
        2 => Just(Variant::DropLastBlock),
        1 => Just(Variant::Empty),
        1 => Just(Variant::Append),
        2 => Just(Variant::TableBeforeLast),
    ]
}

fn op() -> impl Strategy<Value = Op> {
    prop_oneof![
        8 => (0u8..8, variant()).prop_map(|(k, v)| Op::Change(k, v)),
        2 => (0u8..8, proptest::option::of(variant())).prop_map(|(k, v)| Op::Save(k, v)),
        1 => (0u8..3, 0u8..8).prop_map(|(n, k)| Op::New(n, k)),
    ]
}

pub fn apply_variant(current: &str, versions: &[String], v: &Variant) -> String {
    match v {
        Variant::Version(i) => versions[(*i as usize) % versions.len()].clone(),
        Variant::Empty => String::new(),
        Variant::Append => format!("{}\n\nappended paragraph\n", current.trim_end()),
        Variant::DropFirstBlock | Variant::DropLastBlock | Variant::TableBeforeLast => {
            let s = scan::scan(current);
            if s.blocks.is_empty() {
                return current.to_string();
            }
            let b = if matches!(v, Variant::DropFirstBlock) { s.blocks.first().unwrap() } else { s.blocks.last().unwrap() };
            let (from, to) = b.span;
            // cut whole lines
            let from = current[..from].rfind('\n').map(|p| p + 1).unwrap_or(0);
            let to = current[to..].find('\n').map(|p| to + p + 1).unwrap_or(current.len());
            if matches!(v, Variant::TableBeforeLast) {
                format!("{}\n| th |\n| --- |\n| td |\n\n{}", &current[..from], &current[from..])
            } else {
                format!("{}{}", &current[..from], &current[to..])
            }
        }
    }
}

/// Canonical observation dump of a Database (ids mapped to key / line / text).
pub fn dump_db(db: &Database, keys: &[String]) -> BTreeMap<String, Value> {
    let g = db.graph();
    let mut out = BTreeMap::new();
    let exported: BTreeMap<String, String> = g.export().into_iter().collect();
    out.insert("export".into(), json!(exported));
    let place = |id: u64| -> Value { json!([g.node(id).node_key().to_string(), g.node_line_range(id).map(|r| r.start)]) };
    for k in keys {
        let key = Key::from_file_name(k);
        out.insert(format!("title:{}", k), json!(g.get_key_title(&key)));
        let mut b: Vec<String> = g.get_block_references_to(&key).iter().map(|id| place(*id).to_string()).collect();
        b.sort();
        out.insert(format!("block-refs:{}", k), json!(b));
        let mut i: Vec<String> = g.get_inline_references_to(&key).iter().map(|id| place(*id).to_string()).collect();
        i.sort();
        out.insert(format!("inline-refs:{}", k), json!(i));
        out.insert(format!("document:{}", k), json!(db.get_document(&key)));
        if g.get_node_id(&key).is_some() {
            let nlines = db.get_document(&key).map(|d| d.lines().count()).unwrap_or(0);
            let at: Vec<Value> = (0..nlines + 1)
                .map(|l| match g.get_node_id_at(&key, l) {
                    Some(id) => json!([g.get_text(id), g.node_line_range(id).map(|r| (r.start, r.end))]),
                    None => Value::Null,
                })
                .collect();
            out.insert(format!("node-at:{}", k), json!(at));
        }
    }
    let mut paths: Vec<String> = g
        .paths()
        .iter()
        .map(|p| {
            let texts: Vec<String> = p.ids().iter().map(|id| g.get_text(*id)).collect();
            format!("{} @{}", texts.join(" • "), g.node(p.target()).node_key())
        })
        .collect();
    paths.sort();
    out.insert("paths".into(), json!(paths));
    for q in ["", "w1", "appended"] {
        let res: Vec<Value> = db
            .global_search(q)
            .iter()
            .map(|p| json!([p.search_text, p.key.to_string(), p.root, p.line, p.node_rank]))
            .collect();
        out.insert(format!("search:{:?}", q), json!(res));
    }
    out
}

/// The same through the LSP surface.
pub fn dump_lsp(srv: &mut Server, keys: &[String], texts: &Lib) -> Result<BTreeMap<String, Value>, String> {
    let mut out = BTreeMap::new();
    for k in keys {
        for (name, a) in [
            ("formatting", srv.formatting(k)),
            ("references", srv.references(k)),
            ("inlayHint", srv.inlay_hints(k)),
            ("documentSymbol", srv.document_symbols(k)),
        ] {
            match a.value() {
                Some(v) => {
                    // locations of one file come out in hash-set order: compared as a multiset
                    let v = if name == "references" {
                        let mut items: Vec<String> = v.as_array().cloned().unwrap_or_default().iter().map(|x| x.to_string()).collect();
                        items.sort();
                        json!(items)
                    } else {
                        v.clone()
                    };
                    out.insert(format!("{}:{}", name, k), v);
                }
                None => {
                    if a.responded() {
                        out.insert(format!("{}:{}", name, k), json!("error response"));
                    } else {
                        return Err(format!("{} {} -> {:?}", name, k, a));
                    }
                }
            }
        }
        let nlines = texts.get(k).map(|t| t.lines().count()).unwrap_or(0) as u32;
        let mut titles = vec![];
        for l in 0..nlines {
            let a = srv.code_actions(k, l, None);
            match a.value() {
                Some(Value::Array(acts)) => titles.push(json!(acts.iter().map(|x| x["title"].clone()).collect::<Vec<_>>())),
                Some(_) => titles.push(Value::Null),
                None => {
                    if a.responded() {
                        titles.push(json!("error response"))
                    } else {
                        return Err(format!("codeAction {}:{} -> {:?}", k, l, a));
                    }
                }
            }
        }
        out.insert(format!("code-actions:{}", k), json!(titles));
    }
    match srv.workspace_symbols("").value() {
        Some(v) => {
            out.insert("workspace/symbol".into(), v.clone());
        }
        None => return Err("workspace/symbol unanswered".into()),
    }
    Ok(out)
}

fn first_diff(a: &BTreeMap<String, Value>, b: &BTreeMap<String, Value>) -> Option<(String, String)> {
    for (k, va) in a {
        match b.get(k) {
            Some(vb) if va == vb => {}
            Some(vb) => return Some((k.clone(), format!("incremental: {}\nfresh:       {}", va, vb))),
            None => return Some((k.clone(), format!("incremental: {}\nfresh:       <absent>", va))),
        }
    }
    for k in b.keys() {
        if !a.contains_key(k) {
            return Some((k.clone(), format!("incremental: <absent>\nfresh:       {}", b[k])));
        }
    }
    None
}

impl Property for C04 {
    type Case = HistCase;
    fn id(&self) -> &'static str {
        "C04"
    }
    fn rule(&self) -> String {
        "an initial generated library (2-5 notes, sub-directories, cross links) and a history of 1-8 operations: didChange / didSave(with or without text) of an existing note and didChange of a new uri, where the new text is another generated version of the note or a semantic edit of its current text (drop the first block = the title, drop the last block, empty the note, append a paragraph, put a table in front of the last block); a model keeps the last text per note; oracle: after every step the canonical observation dump of the incremental instance (export, titles, block and inline backlinks as (note, line), documents, block found at every line, rendered paths, ordered search results for three queries; through LSP: formatting, references, inlay hints, document symbols and code-action titles at every line of every note, workspace symbols) equals that of an instance built from scratch on the model's texts; non-trivial = the history removes something an earlier version contributed (title, last block, whole content) or puts a table before a block".into()
    }
    fn assumptions(&self) -> Vec<String> {
        vec!["arena ids are mapped to (note, line, text): they legitimately differ between the two instances".into()]
    }
    fn domain_off(&self) -> Vec<&'static str> {
        vec!["item_first_list", "item_first_heading", "empty_item", "html_block"]
    }
    fn max_shrink_iters(&self) -> u32 {
        250
    }
    /// coverage-guided phase: runs per job, set by what one case costs under instrumentation
    fn fuzz_runs(&self, tier: Tier) -> u64 {
        match tier {
            Tier::Quick => 0,
            Tier::Thorough => 600,
        }
    }
    fn cases(&self, tier: Tier) -> u64 {
        match tier {
            Tier::Quick => 1600,
            Tier::Thorough => 40_000,
        }
    }
    fn strategy(&self, features: &Features, _tier: Tier) -> BoxedStrategy<HistCase> {
        (library::library_versions(features, 5, 4, 3), vec(op(), 1..8), 0u8..4)
            .prop_map(|(lib, ops, door)| HistCase { lib, ops, door: if door == 0 { 1 } else { 0 } })
            .boxed()
    }
    fn check(&self, case: &HistCase, stats: &mut Stats) -> Verdict {
        let ext = &case.lib.ext;
        let mut model: Lib = case.lib.notes.iter().map(|(k, v)| (k.clone(), v[0].clone())).collect();
        for (_, vs) in &case.lib.notes {
            for t in vs {
                if let Some(r) = crate::canon::crash_domain_discard(&scan::scan(t)) {
                    return Verdict::Discard(r);
                }
            }
        }
        let versions: BTreeMap<String, Vec<String>> = case.lib.notes.iter().cloned().collect();
        let base_keys: Vec<String> = case.lib.notes.iter().map(|(k, _)| k.clone()).collect();
        let mut nontrivial = false;
        let lsp = case.door == 1;
        stats.class(if lsp { "door:lsp" } else { "door:api" });
        let mut db = Database::new(api::to_state(&model), false, api::opts(ext));
        let mut srv = if lsp { Some(Server::start(&model, ext, false, "")) } else { None };
        for (n, op) in case.ops.iter().enumerate() {
            let (key, new_text): (String, Option<String>) = match op {
                Op::Change(k, v) => {
                    let key = base_keys[(*k as usize) % base_keys.len()].clone();
                    let cur = model.get(&key).cloned().unwrap_or_default();
                    if matches!(v, Variant::DropFirstBlock | Variant::DropLastBlock | Variant::Empty | Variant::TableBeforeLast) {
                        nontrivial = true;
                    }
                    stats.class(&format!("edit:{:?}", std::mem::discriminant(v)).replace("Discriminant", ""));
                    (key.clone(), Some(apply_variant(&cur, &versions[&key], v)))
                }
                Op::Save(k, v) => {
                    let key = base_keys[(*k as usize) % base_keys.len()].clone();
                    let cur = model.get(&key).cloned().unwrap_or_default();
                    (key.clone(), v.as_ref().map(|v| apply_variant(&cur, &versions[&key], v)))
                }
                Op::New(nk, k) => {
                    let key = NEW_KEYS[(*nk as usize) % NEW_KEYS.len()].to_string();
                    let src = &base_keys[(*k as usize) % base_keys.len()];
                    stats.class("op:new-key");
                    (key, Some(versions[src][1 % versions[src].len()].clone()))
                }
            };
            if let Some(t) = &new_text {
                if let Some(r) = crate::canon::crash_domain_discard(&scan::scan(t)) {
                    if let Some(s) = srv.take() {
                        s.kill();
                    }
                    return Verdict::Discard(r);
                }
            }
            // apply to the implementation
            match (&mut srv, op) {
                (Some(s), Op::Save(_, _)) => {
                    s.did_save(&key, new_text.as_deref());
                }
                (Some(s), _) => {
                    s.did_change(&key, new_text.as_deref().unwrap_or(""));
                }
                (None, _) => {
                    if let Some(t) = &new_text {
                        db.update_document(Key::from_file_name(&key), t.clone());
                    }
                }
            }
            // and to the model
            if let Some(t) = new_text {
                model.insert(key.clone(), t);
            }
            let keys: Vec<String> = model.keys().cloned().collect();
            let (inc, fresh) = if let Some(s) = srv.as_mut() {
                let inc = match dump_lsp(s, &keys, &model) {
                    Ok(d) => d,
                    Err(e) => {
                        let death = s.loop_death();
                        let sv = srv.take().unwrap();
                        sv.kill();
                        if let Some(rec) = death {
                            return Verdict::fail(rec.signature(), format!("the server loop died: {} {}", rec.file, rec.message));
                        }
                        return Verdict::fail("c04|no-answer", format!("step {}: {}", n, e));
                    }
                };
                if !s.loop_panics.is_empty() {
                    let rec = s.loop_panics[0].clone();
                    let sv = srv.take().unwrap();
                    sv.kill();
                    return Verdict::fail(rec.signature(), format!("step {} {:?}: notification handler panicked at {}: {}", n, op, rec.file, rec.message));
                }
                let mut f = Server::start(&model, ext, false, "");
                let fd = dump_lsp(&mut f, &keys, &model);
                f.kill();
                // the fresh server replaced the panic channel: re-arm it for the incremental one is not
                // needed (its receiver is the same global sender replaced) - restart the channel
                match fd {
                    Ok(fd) => (inc, fd),
                    Err(e) => {
                        let sv = srv.take().unwrap();
                        sv.kill();
                        return Verdict::fail("c04|fresh-no-answer", format!("step {}: fresh server: {}", n, e));
                    }
                }
            } else {
                let fresh_db = Database::new(api::to_state(&model), false, api::opts(ext));
                (dump_db(&db, &keys), dump_db(&fresh_db, &keys))
            };
            if let Some((what, detail)) = first_diff(&inc, &fresh) {
                if let Some(s) = srv.take() {
                    s.kill();
                }
                let mut kind = what.split(':').next().unwrap_or("").to_string();
                if kind == "documentSymbol" {
                    // same symbols in another order?
                    let sorted = |v: &Value| {
                        let mut items: Vec<String> = v.as_array().cloned().unwrap_or_default().iter().map(|x| x.to_string()).collect();
                        items.sort();
                        items
                    };
                    if sorted(&inc[&what]) == sorted(&fresh[&what]) {
                        kind = "documentSymbol-order".to_string();
                    }
                }
                let mut d = format!("after step {} ({:?}) observation {:?} differs\n{}\n\nmodel texts:\n", n, op, what, detail);
                for (k, v) in &model {
                    d.push_str(&format!("--- {}\n{}\n", k, v));
                }
                d.push_str(&format!("history: {:?}\n", case.ops));
                return Verdict::fail(format!("c04|{}|{}", if lsp { "lsp" } else { "api" }, kind), d);
            }
        }
        if let Some(s) = srv.take() {
            if let Err((sig, detail)) = s.finish("c04") {
                return Verdict::fail(sig, detail);
            }
        }
        Verdict::Pass { nontrivial }
    }
    fn sample(&self, case: &HistCase) -> Value {
        json!({"keys": case.lib.notes.iter().map(|(k, _)| k.clone()).collect::<Vec<_>>(), "ops": format!("{:?}", case.ops), "door": case.door})
    }
}
