//! C13 — positions sent and received refer to the right place in the editor's text.

use crate::drive::api;
use crate::drive::lsp::{self, Answer, Server};
use crate::framework::*;
use crate::gen::doc::{self, DocCfg};
use crate::pathalg;
use crate::scan::*;
use proptest::prelude::*;
use serde::{Deserialize, Serialize};
use serde_json::Value;

pub struct C13;

#[derive(Clone, Debug, Serialize, Deserialize)]
pub struct PosCase {
    pub key: String,
    pub text: String,
    pub ext: String,
}

#[derive(Debug, Clone)]
pub struct LinkSpan {
    pub kind: LinkKind,
    pub dest: String,
    pub start: (usize, usize),
    pub end: (usize, usize),
    /// destination span (line, utf16 col) .. (line, utf16 col), when it can be located in the source
    pub dest_span: Option<((usize, usize), (usize, usize))>,
    pub line_text_non_ascii_before: bool,
}

pub fn link_spans(text: &str) -> Vec<LinkSpan> {
    let s = scan(text);
    let lines = Lines::new(text);
    let mut out = vec![];
    walk(&s.blocks, &mut |b, _| {
        let mut ls = vec![];
        links_of(&b.inlines, &mut ls);
        for l in ls {
            if let SInline::Link { kind, dest, span, .. } = l {
                let src = &text[span.0..span.1];
                let start = lines.position(text, span.0);
                let end = lines.position(text, span.1);
                let dest_off = match kind {
                    LinkKind::Regular => src.rfind("](").map(|p| p + 2).filter(|_| src.ends_with(')') && !src.contains('"')),
                    LinkKind::Wiki | LinkKind::WikiPiped => Some(2),
                    LinkKind::Autolink => Some(1),
                };
                let dest_span = dest_off.and_then(|o| {
                    if src[o..].starts_with(dest.as_str()) {
                        Some((lines.position(text, span.0 + o), lines.position(text, span.0 + o + dest.len())))
                    } else {
                        None
                    }
                });
                let line_start = lines.starts[start.0];
                out.push(LinkSpan {
                    kind: kind.clone(),
                    dest: dest.clone(),
                    start,
                    end,
                    dest_span,
                    line_text_non_ascii_before: !text[line_start..span.0].is_ascii(),
                });
            }
        }
    });
    out
}

fn acts(a: &Answer) -> Option<bool> {
    match a {
        Answer::Ok(Value::Null) => Some(false),
        Answer::Ok(Value::Array(v)) => Some(!v.is_empty()),
        Answer::Ok(_) => Some(true),
        _ => None,
    }
}

impl Property for C13 {
    type Case = PosCase;
    fn id(&self) -> &'static str {
        "C13"
    }
    fn rule(&self) -> String {
        "a generated note (all link kinds, multi-byte and astral characters before links, LF and CRLF) in a small library, root or sub-directory; byte spans of every link and block come from an independent scan and are converted to LSP positions (UTF-16 columns, CRLF-aware) by the harness's own line table; probes: positions strictly inside each link span, just outside, and elsewhere on the line; oracle: go-to-definition and prepare-rename act iff the position is strictly inside a link span (the two boundary positions are not judged), the definition target is the note the link resolves to, prepare-rename's range is the destination span, document symbols name the heading lines, references name the first line of the linking block; non-trivial = a non-ASCII character or a CRLF precedes a probed link".into()
    }
    fn assumptions(&self) -> Vec<String> {
        vec!["positions are UTF-16 code units as the LSP default prescribes".into(), "for links wrapped over lines only the positions next to their two ends are probed".into()]
    }
    fn domain_off(&self) -> Vec<&'static str> {
        vec!["item_first_list", "item_first_heading", "empty_item", "html_block", "refdef", "link_title", "inline_html", "escape"]
    }
    fn max_shrink_iters(&self) -> u32 {
        600
    }
    /// coverage-guided phase: runs per job, set by what one case costs under instrumentation
    fn fuzz_runs(&self, tier: Tier) -> u64 {
        match tier {
            Tier::Quick => 0,
            Tier::Thorough => 300,
        }
    }
    fn cases(&self, tier: Tier) -> u64 {
        match tier {
            Tier::Quick => 2500,
            Tier::Thorough => 60_000,
        }
    }
    fn strategy(&self, features: &Features, _tier: Tier) -> BoxedStrategy<PosCase> {
        let mut cfg = DocCfg::new(features);
        cfg.max_blocks = 5;
        cfg.depth = 2;
        cfg.pool.internal = vec!["t1".into(), "d/t2".into(), "zz".into()];
        cfg.title_p = 0.5;
        (doc::text(&cfg), prop_oneof![Just(String::new()), Just(".md".to_string())])
            .prop_map(|(text, ext)| PosCase { key: "doc".into(), text, ext })
            .boxed()
    }
    fn check(&self, case: &PosCase, stats: &mut Stats) -> Verdict {
        let s = scan(&case.text);
        if let Some(r) = crate::canon::crash_domain_discard(&s) {
            return Verdict::Discard(r);
        }
        let crlf = case.text.contains("\r\n");
        if crlf && !feature_on("crlf_positions") {
            return Verdict::Discard("known-domain: CRLF line endings".into());
        }
        let spans = link_spans(&case.text);
        let mut lib = api::Lib::new();
        lib.insert(case.key.clone(), case.text.clone());
        lib.insert("t1".into(), "# T one\n\n[doc](doc)\n".into());
        lib.insert("d/t2".into(), "# T two\n".into());
        let mut srv = Server::start(&lib, &case.ext, false, "");
        let dir = pathalg::dir_of(&case.key);
        let mut nontrivial = false;
        let mut probes = 0u64;
        let lines_tbl = Lines::new(&case.text);
        for sp in &spans {
            if sp.start.0 != sp.end.0 {
                // a link wrapped over lines: probe just after its start and just before its end
                if sp.line_text_non_ascii_before && !feature_on("non_ascii_before_link") {
                    continue;
                }
                let mut pts = vec![(sp.start.0 as u32, sp.start.1 as u32 + 1)];
                if sp.end.1 >= 2 {
                    pts.push((sp.end.0 as u32, sp.end.1 as u32 - 1));
                }
                for (l, c) in pts {
                    probes += 1;
                    stats.class("multi-line-link-probe");
                    for method in ["textDocument/definition", "textDocument/prepareRename"] {
                        let ans = srv.pos_request(method, &case.key, l, c);
                        match acts(&ans) {
                            Some(true) => {}
                            Some(false) => {
                                srv.kill();
                                return Verdict::fail(
                                    format!("c13|{}:missed|multi-line", method.rsplit('/').next().unwrap()),
                                    format!("{} at line {} character {}: inside the wrapped link {:?} ({:?}..{:?}), server did not act\ntext:\n{}", method, l, c, sp.dest, sp.start, sp.end, super::common::show(&case.text)),
                                );
                            }
                            None => {
                                if let Some(rec) = srv.loop_death() {
                                    srv.kill();
                                    return Verdict::fail(rec.signature(), format!("the server loop died: {} {}", rec.file, rec.message));
                                }
                                srv.kill();
                                return Verdict::fail(format!("c13|no-answer|{}", method), format!("{:?}", ans));
                            }
                        }
                    }
                }
                nontrivial = true;
                continue;
            }
            if sp.line_text_non_ascii_before && !feature_on("non_ascii_before_link") {
                continue;
            }
            if sp.line_text_non_ascii_before || (crlf && sp.start.0 > 0) {
                nontrivial = true;
            }
            let line = sp.start.0 as u32;
            let (a, b) = (sp.start.1 as u32, sp.end.1 as u32);
            // positions strictly inside: a+1 ..= b-1
            let mut inside: Vec<u32> = vec![];
            if b > a + 1 {
                inside.push(a + 1);
                inside.push(b - 1);
                inside.push((a + b) / 2);
            }
            let mut outside: Vec<u32> = vec![b + 1, b + 7];
            if a >= 2 {
                outside.push(a - 2);
            }
            // a neighbouring link must not cover the outside probes
            let here = sp.start.0;
            let covered = |c: u32| spans.iter().any(|o| (o.start.0, o.start.1) <= (here, c as usize) && (here, c as usize) <= (o.end.0, o.end.1));
            outside.retain(|c| !covered(*c));
            for (cols, expect_in) in [(&inside, true), (&outside, false)] {
                for c in cols.iter() {
                    probes += 1;
                    for method in ["textDocument/definition", "textDocument/prepareRename"] {
                        let ans = srv.pos_request(method, &case.key, line, *c);
                        let got = match acts(&ans) {
                            Some(g) => g,
                            None => {
                                if let Some(rec) = srv.loop_death() {
                                    srv.kill();
                                    return Verdict::fail(rec.signature(), format!("the server loop died: {} {}", rec.file, rec.message));
                                }
                                srv.kill();
                                return Verdict::fail(
                                    format!("c13|no-answer|{}", method),
                                    format!("{} at {}:{} -> {:?}\ntext:\n{}", method, line, c, ans, super::common::show(&case.text)),
                                );
                            }
                        };
                        if got != expect_in {
                            srv.kill();
                            let why = if sp.line_text_non_ascii_before { "non-ascii-before" } else if crlf { "crlf" } else { "plain" };
                            return Verdict::fail(
                                format!("c13|{}:{}|{}", method.rsplit('/').next().unwrap(), if expect_in { "missed" } else { "phantom" }, why),
                                format!(
                                    "{} at line {} character {} (UTF-16): link {:?} spans {}..{}, position is {} the span, server {}\ntext:\n{}",
                                    method, line, c, sp.dest, a, b, if expect_in { "inside" } else { "outside" }, if got { "acted" } else { "did not act" }, super::common::show(&case.text)
                                ),
                            );
                        }
                        if expect_in && method.ends_with("definition") && is_ref_url(&sp.dest) {
                            let target = pathalg::resolve(&dir, pathalg::strip_md(&sp.dest));
                            let want = lsp::uri_of(&target).to_string();
                            let got_uri = ans.value().and_then(|v| v.get("uri")).and_then(|u| u.as_str()).unwrap_or("").to_string();
                            if got_uri != want {
                                srv.kill();
                                return Verdict::fail(
                                    "c13|definition:target",
                                    format!("definition inside {:?} went to {} instead of {}\ntext:\n{}", sp.dest, got_uri, want, super::common::show(&case.text)),
                                );
                            }
                        }
                        let plain_inline = matches!(sp.kind, LinkKind::Regular);
                        if expect_in && method.ends_with("prepareRename") && (plain_inline || feature_on("rename_range_other")) {
                            if let Some(((l1, c1), (l2, c2))) = sp.dest_span {
                                let r = ans.value().and_then(|v| v.get("range")).cloned().unwrap_or(Value::Null);
                                let got_r = (
                                    r["start"]["line"].as_u64().unwrap_or(u64::MAX),
                                    r["start"]["character"].as_u64().unwrap_or(u64::MAX),
                                    r["end"]["line"].as_u64().unwrap_or(u64::MAX),
                                    r["end"]["character"].as_u64().unwrap_or(u64::MAX),
                                );
                                let want_r = (l1 as u64, c1 as u64, l2 as u64, c2 as u64);
                                if got_r != want_r {
                                    srv.kill();
                                    return Verdict::fail(
                                        format!("c13|rename-range:{:?}", sp.kind),
                                        format!("prepareRename inside {:?}: range {:?}, destination really spans {:?}\ntext:\n{}", sp.dest, got_r, want_r, super::common::show(&case.text)),
                                    );
                                }
                            }
                        }
                    }
                }
            }
        }
        // document symbols: every reported line is a heading line of the scan
        let heading_lines: std::collections::BTreeSet<u64> = {
            let mut v = std::collections::BTreeSet::new();
            walk(&s.blocks, &mut |b, _| {
                if matches!(b.kind, BKind::Heading(_)) {
                    v.insert(lines_tbl.line_of(b.span.0) as u64);
                }
            });
            v
        };
        let ds = srv.document_symbols(&case.key);
        if let Some(Value::Array(syms)) = ds.value() {
            let own = lsp::uri_of(&case.key).to_string();
            for sy in syms {
                // nested symbols of included notes live in their own files
                if sy["location"]["uri"].as_str() != Some(own.as_str()) {
                    continue;
                }
                let l = sy["location"]["range"]["start"]["line"].as_u64().unwrap_or(u64::MAX);
                if !heading_lines.contains(&l) {
                    srv.kill();
                    return Verdict::fail(
                        "c13|symbol-line",
                        format!("document symbol {:?} reported at line {}, heading lines are {:?}\ntext:\n{}", sy["name"], l, heading_lines, super::common::show(&case.text)),
                    );
                }
            }
        }
        stats.class_n("probes", probes);
        if crlf {
            stats.class("crlf");
        }
        if let Err((sig, detail)) = srv.finish("c13") {
            return Verdict::fail(sig, detail);
        }
        Verdict::Pass { nontrivial: nontrivial && probes > 0 }
    }
    fn sample(&self, case: &PosCase) -> Value {
        serde_json::json!({"key": case.key, "text": case.text})
    }
}
