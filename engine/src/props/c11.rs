//! C11 — no edit notification is lost, whatever requests are in flight.
//!
//! The harness owns the schedule: request workers park at the pause points of the `verif` feature
//! (started / result computed / response sent / exited) until the generated schedule lets them go.

use crate::drive::api::{self, Lib};
use crate::drive::lsp::{self, Answer, Server};
use crate::framework::*;
use iwes::verif::{self, Point};
use lsp_server::{Message, Request};
use proptest::collection::vec;
use proptest::prelude::*;
use serde::{Deserialize, Serialize};
use serde_json::{json, Value};
use std::collections::BTreeMap;
use std::sync::{Arc, Condvar, Mutex};
use std::time::{Duration, Instant};

pub struct C11;

#[derive(Clone, Debug, Serialize, Deserialize)]
pub enum Ev {
    /// formatting request for note idx (its answer shows the note's current text)
    Req(u8),
    /// a request of another kind (workspace symbols) - just a worker that is alive
    OtherReq,
    /// didChange(note idx, text version)
    Change(u8, u8),
    /// didSave(note idx, Some(text version))
    Save(u8, u8),
    /// let outstanding worker number w (in start order, mod outstanding) run up to a point:
    /// 1 = result computed, 2 = response sent, 3 = exited
    Advance(u8, u8),
}

#[derive(Clone, Debug, Serialize, Deserialize)]
pub struct SchedCase {
    pub events: Vec<Ev>,
}

const KEYS: &[&str] = &["a", "d/b"];

fn text_of(key: &str, version: u8) -> String {
    format!("# {} v{}\n\nbody of {} in version {}\n", key.replace('/', "-"), version, key, version)
}

#[derive(Default)]
struct Ctl {
    /// per request id: (reached point index 0..=3, allowed up to)
    workers: BTreeMap<String, (u8, u8)>,
    order: Vec<String>,
    handled: u64,
    handled_panicked: u64,
    free_run: bool,
    /// ids of the requests of this case (anything else comes from an earlier server's late thread)
    known: std::collections::BTreeSet<String>,
}

/// releases parked workers and removes the hook on every way out of a case
struct Release(Arc<(Mutex<Ctl>, Condvar)>);

impl Drop for Release {
    fn drop(&mut self) {
        verif::set_hook(None);
        let (m, cv) = &*self.0;
        if let Ok(mut c) = m.lock() {
            c.free_run = true;
            for e in c.workers.values_mut() {
                e.1 = 3;
            }
        }
        cv.notify_all();
    }
}

/// let every parked worker run to its end (the loop thread may be waiting for them)
fn release(ctl: &Arc<(Mutex<Ctl>, Condvar)>) {
    let (m, cv) = &**ctl;
    if let Ok(mut c) = m.lock() {
        c.free_run = true;
        for e in c.workers.values_mut() {
            e.1 = 3;
        }
    }
    cv.notify_all();
}

fn point_index(p: &Point) -> Option<u8> {
    match p {
        Point::WorkerStart => Some(0),
        Point::ResultComputed => Some(1),
        Point::ResponseSent => Some(2),
        Point::WorkerExit => Some(3),
        _ => None,
    }
}

/// All schedules with at most `max_req` requests and `max_notes` notifications on note 0; see
/// `fixed_cases`. A schedule ends with its last message (everything is released afterwards anyway).
pub fn enumerate_schedules(max_req: u8, max_notes: u8) -> Vec<SchedCase> {
    fn rec(events: &mut Vec<Ev>, reqs_left: u8, notes_left: u8, sent_notes: u8, points: &mut Vec<u8>, out: &mut Vec<SchedCase>) {
        if !events.is_empty() && matches!(events.last(), Some(Ev::Req(_)) | Some(Ev::Change(_, _))) {
            out.push(SchedCase { events: events.clone() });
        }
        if reqs_left > 0 {
            events.push(Ev::Req(0));
            points.push(0);
            rec(events, reqs_left - 1, notes_left, sent_notes, points, out);
            points.pop();
            events.pop();
        }
        if notes_left > 0 {
            events.push(Ev::Change(0, sent_notes + 1));
            rec(events, reqs_left, notes_left - 1, sent_notes + 1, points, out);
            events.pop();
        }
        // an advance is only worth enumerating when a message can still follow it
        if reqs_left > 0 || notes_left > 0 {
            // outstanding workers in start order (those that have not exited)
            let outstanding: Vec<usize> = (0..points.len()).filter(|i| points[*i] < 3).collect();
            for (pos, w) in outstanding.iter().enumerate() {
                for to in (points[*w] + 1)..=3 {
                    let before = points[*w];
                    events.push(Ev::Advance(pos as u8, to));
                    points[*w] = to;
                    rec(events, reqs_left, notes_left, sent_notes, points, out);
                    points[*w] = before;
                    events.pop();
                }
            }
        }
    }
    let mut out = vec![];
    rec(&mut vec![], max_req, max_notes, 0, &mut vec![], &mut out);
    out
}

impl Property for C11 {
    type Case = SchedCase;
    fn id(&self) -> &'static str {
        "C11"
    }
    fn level(&self) -> &'static str {
        "exploration"
    }
    fn rule(&self) -> String {
        "(besides the generated schedules, every schedule over one note with at most one - thorough tier: two - formatting requests and at most two didChange notifications, in every order and with every monotone way of advancing each outstanding worker between the messages, is enumerated and run: 41 resp. 3466 schedules) schedules: a generated list of 1-10 events over two notes - formatting requests, other requests, didChange / didSave with numbered text versions, and Advance(worker, point) steps that let one outstanding request worker run to 'result computed', 'response sent' or 'exited'; request workers park at the pause points of the verif feature until the schedule releases them, so every interleaving of the message loop with the workers at the granularity of those four points is a generated value and replays exactly; at the end everything is released and the server reaches idle; oracle: no notification handler panicked or was skipped (message-handled signal), after quiescence formatting of every note equals a fresh server's formatting of the last text sent for it, and every formatting request issued after a notification is answered from a state that includes it; non-trivial = at least one notification delivered while at least one worker is between started and exited".into()
    }
    fn assumptions(&self) -> Vec<String> {
        vec!["interleavings are explored at the granularity of the four pause points; races inside handlers are out of reach (there is no shared mutable state there besides the Arc)".into(), "a 20 s backstop on quiescence ends in inconclusive (exit 2), not in a violation".into()]
    }
    fn workers(&self) -> usize {
        8
    }
    fn max_shrink_iters(&self) -> u32 {
        300
    }
    fn cases(&self, tier: Tier) -> u64 {
        match tier {
            Tier::Quick => 800,
            Tier::Thorough => 40_000,
        }
    }
    /// Exhaustive sub-space, run by the supervisor in every tier: every schedule over one note with
    /// at most R formatting requests and at most two didChange notifications (texts 1 and 2), in
    /// every order, with every way of letting each outstanding worker advance (to 'result
    /// computed', 'response sent', 'exited', monotonically) between the messages. R = 1 in the
    /// quick tier, 2 in the thorough tier.
    fn fixed_cases(&self, tier: Tier) -> Vec<SchedCase> {
        let max_req = match tier {
            Tier::Quick => 1,
            Tier::Thorough => 2,
        };
        enumerate_schedules(max_req, 2)
    }
    fn strategy(&self, _features: &Features, _tier: Tier) -> BoxedStrategy<SchedCase> {
        let ev = prop_oneof![
            4 => (0u8..2).prop_map(Ev::Req),
            1 => Just(Ev::OtherReq),
            4 => (0u8..2, 1u8..9).prop_map(|(k, v)| Ev::Change(k, v)),
            1 => (0u8..2, 1u8..9).prop_map(|(k, v)| Ev::Save(k, v)),
            4 => (0u8..4, 1u8..4).prop_map(|(w, p)| Ev::Advance(w, p)),
        ];
        vec(ev, 1..10).prop_map(|events| SchedCase { events }).boxed()
    }
    fn check(&self, case: &SchedCase, stats: &mut Stats) -> Verdict {
        let ctl: Arc<(Mutex<Ctl>, Condvar)> = Arc::new((Mutex::new(Ctl::default()), Condvar::new()));
        let hook_ctl = ctl.clone();
        verif::set_hook(Some(Arc::new(move |p: Point, id: Option<String>| {
            let (m, cv) = &*hook_ctl;
            let mut c = m.lock().unwrap();
            match (&p, id) {
                (Point::MessageHandled { panicked }, _) => {
                    c.handled += 1;
                    if *panicked {
                        c.handled_panicked += 1;
                    }
                    cv.notify_all();
                }
                (_, Some(id)) => {
                    if !c.known.contains(&id) {
                        return;
                    }
                    let idx = point_index(&p).unwrap();
                    if !c.workers.contains_key(&id) {
                        c.order.push(id.clone());
                        let allowed = if c.free_run { 3 } else { 0 };
                        c.workers.insert(id.clone(), (idx, allowed));
                    }
                    c.workers.get_mut(&id).unwrap().0 = idx;
                    cv.notify_all();
                    // park here until allowed to pass this point (passing point i needs allowed > i;
                    // the exit point is never held)
                    if idx < 3 {
                        let deadline = Instant::now() + Duration::from_secs(30);
                        while !c.free_run && c.workers[&id].1 <= idx {
                            let (g, t) = cv.wait_timeout(c, Duration::from_millis(200)).unwrap();
                            c = g;
                            if t.timed_out() && Instant::now() > deadline {
                                break;
                            }
                        }
                    }
                }
                _ => {}
            }
        })));
        let _release = Release(ctl.clone());
        let mut lib = Lib::new();
        for k in KEYS {
            lib.insert(k.to_string(), text_of(k, 0));
        }
        let mut srv = Server::start(&lib, "", false, "");
        let mut model: BTreeMap<String, String> = lib.clone();
        let mut sent_messages: u64 = 0;
        // formatting requests: id -> (note, text the answer must reflect)
        let mut expectations: Vec<(lsp_server::RequestId, String, String)> = vec![];
        let mut nontrivial = false;
        let wait_for = |pred: &dyn Fn(&Ctl) -> bool, secs: u64| -> bool {
            let (m, cv) = &*ctl;
            let mut c = m.lock().unwrap();
            let deadline = Instant::now() + Duration::from_secs(secs);
            while !pred(&c) {
                let (g, _) = cv.wait_timeout(c, Duration::from_millis(100)).unwrap();
                c = g;
                if Instant::now() > deadline {
                    return false;
                }
            }
            true
        };
        let live_workers = |c: &Ctl| c.workers.values().filter(|(reached, _)| *reached < 3).count();
        let mut blocked_loop = false; // a notification is waiting for workers (loop thread busy)
        for ev in &case.events {
            match ev {
                Ev::Req(_) | Ev::OtherReq => {
                    let (method, params, key) = match ev {
                        Ev::Req(k) => {
                            let key = KEYS[(*k as usize) % KEYS.len()];
                            ("textDocument/formatting", json!({"textDocument": {"uri": lsp::uri_of(key)}, "options": {"tabSize": 2, "insertSpaces": true}}), Some(key))
                        }
                        _ => ("workspace/symbol", json!({"query": ""}), None),
                    };
                    {
                        let (m, _) = &*ctl;
                        m.lock().unwrap().known.insert(srv.peek_id().to_string());
                    }
                    if let Some(id) = srv.send_request(method, params) {
                        sent_messages += 1;
                        if let Some(key) = key {
                            expectations.push((id.clone(), key.to_string(), model[key].clone()));
                        }
                        if !blocked_loop {
                            // wait until the loop has spawned the worker and it parked at start
                            let n = sent_messages;
                            let ids = id.to_string();
                            if !wait_for(&|c: &Ctl| c.handled >= n && c.workers.contains_key(&ids), 20) {
                                release(&ctl);
                                srv.kill();
                                verif::set_hook(None);
                                return Verdict::Discard("backstop: loop did not take the request".into());
                            }
                        }
                    }
                }
                Ev::Change(k, v) | Ev::Save(k, v) => {
                    let key = KEYS[(*k as usize) % KEYS.len()];
                    let text = text_of(key, *v);
                    let live = {
                        let (m, _) = &*ctl;
                        live_workers(&m.lock().unwrap())
                    };
                    if live > 0 {
                        nontrivial = true;
                        stats.class("notification-with-live-worker");
                    }
                    if matches!(ev, Ev::Change(_, _)) {
                        srv.did_change(key, &text);
                    } else {
                        srv.did_save(key, Some(&text));
                    }
                    sent_messages += 1;
                    model.insert(key.to_string(), text);
                    if live == 0 && !blocked_loop {
                        let n = sent_messages;
                        if !wait_for(&|c: &Ctl| c.handled >= n, 20) {
                            release(&ctl);
                            srv.kill();
                            verif::set_hook(None);
                            return Verdict::Discard("backstop: loop did not handle the notification".into());
                        }
                    } else {
                        // the loop may legitimately wait for the live workers: do not wait here
                        blocked_loop = true;
                    }
                }
                Ev::Advance(w, p) => {
                    let (m, cv) = &*ctl;
                    let target = {
                        let mut c = m.lock().unwrap();
                        let outstanding: Vec<String> = c.order.iter().filter(|id| c.workers[*id].0 < 3).cloned().collect();
                        if outstanding.is_empty() {
                            None
                        } else {
                            let id = outstanding[(*w as usize) % outstanding.len()].clone();
                            let e = c.workers.get_mut(&id).unwrap();
                            if e.1 < *p {
                                e.1 = *p;
                            }
                            cv.notify_all();
                            Some((id, *p))
                        }
                    };
                    if let Some((id, p)) = target {
                        stats.class(&format!("advance-to:{}", p));
                        // wait until it reached that point
                        let _ = wait_for(&|c: &Ctl| c.workers.get(&id).map(|e| e.0 >= p).unwrap_or(true), 20);
                        // when every worker is gone a waiting loop thread gets going again
                        let all_gone = {
                            let c = m.lock().unwrap();
                            live_workers(&c) == 0
                        };
                        if all_gone && blocked_loop {
                            let n = sent_messages;
                            // every queued request has been spawned and its worker has checked in
                            if wait_for(&|c: &Ctl| c.handled >= n && c.known.iter().all(|id| c.workers.contains_key(id)), 20) {
                                blocked_loop = false;
                            }
                        }
                    }
                }
            }
        }
        // release everything and wait for quiescence
        {
            let (m, cv) = &*ctl;
            let mut c = m.lock().unwrap();
            c.free_run = true;
            for e in c.workers.values_mut() {
                e.1 = 3;
            }
            cv.notify_all();
        }
        let n = sent_messages;
        let quiet = wait_for(&|c: &Ctl| c.handled >= n && c.workers.values().all(|e| e.0 >= 3), 20);
        if !quiet {
            release(&ctl);
            srv.kill();
            verif::set_hook(None);
            return Verdict::Discard("backstop: server did not reach idle within 20 s".into());
        }
        let panicked = {
            let (m, _) = &*ctl;
            m.lock().unwrap().handled_panicked
        };
        // collect the responses of the formatting requests
        let mut answers: BTreeMap<String, Value> = BTreeMap::new();
        let deadline = Instant::now() + Duration::from_secs(20);
        while expectations.iter().any(|(id, _, _)| !answers.contains_key(&id.to_string())) && Instant::now() < deadline {
            if let Ok(Message::Response(r)) = srv.client.receiver.recv_timeout(Duration::from_millis(200)) {
                answers.insert(r.id.to_string(), r.result.unwrap_or(Value::Null));
            }
        }
        let detail = |what: String| format!("{}\nschedule: {:?}", what, case.events);
        if panicked > 0 {
            let rec = srv.loop_death().or_else(|| {
                srv.drain_panics();
                srv.loop_panics.first().cloned()
            });
            srv.kill();
            return Verdict::fail(
                "c11|notification-handler-panicked",
                detail(format!("{} message(s) ended in a caught panic on the loop thread (the notification was dropped): {:?}", panicked, rec.map(|r| r.message))),
            );
        }
        // final state
        let mut final_texts = BTreeMap::new();
        for k in KEYS {
            match srv.formatted_text(k) {
                Ok(t) => {
                    final_texts.insert(k.to_string(), t);
                }
                Err(crate::drive::lsp::Answer::Timeout) => {
                    // a backstop, not an oracle: under load a 30 s wait can run out
                    srv.kill();
                    return Verdict::Discard("backstop: formatting after quiescence not answered within the wait".into());
                }
                Err(a) => {
                    srv.kill();
                    return Verdict::fail("c11|no-answer", detail(format!("formatting {} after quiescence: {:?}", k, a)));
                }
            }
        }
        if let Err((sig, d)) = srv.finish("c11") {
            return Verdict::fail(sig, detail(d));
        }
        let expected_final = api::format_library(&model, "");
        for k in KEYS {
            if final_texts[*k] != expected_final[*k] {
                return Verdict::fail(
                    "c11|final-state",
                    detail(format!("after quiescence note {} formats as\n{}\nbut the last text sent for it formats as\n{}", k, final_texts[*k], expected_final[*k])),
                );
            }
        }
        for (id, key, text_then) in &expectations {
            let mut one = Lib::new();
            one.insert(key.clone(), text_then.clone());
            let want = api::format_library(&one, "")[key].clone();
            match answers.get(&id.to_string()).and_then(|v| v.get(0)).and_then(|e| e.get("newText")).and_then(|t| t.as_str()) {
                Some(got) if got == want => {}
                Some(got) => {
                    return Verdict::fail(
                        "c11|stale-answer",
                        detail(format!("formatting request {} for {} was sent after the note had been changed to\n{}\nbut was answered with\n{}", id, key, text_then, got)),
                    )
                }
                None => return Verdict::fail("c11|request-unanswered", detail(format!("formatting request {} got no result: {:?}", id, answers.get(&id.to_string())))),
            }
        }
        let _ = Answer::Timeout;
        let _ = Request { id: 0.into(), method: String::new(), params: Value::Null };
        Verdict::Pass { nontrivial }
    }
    fn sample(&self, case: &SchedCase) -> Value {
        json!({"events": format!("{:?}", case.events)})
    }
}

#[cfg(test)]
mod tests {
    #[test]
    fn schedule_counts() {
        println!("R1: {}", super::enumerate_schedules(1, 2).len());
        println!("R2: {}", super::enumerate_schedules(2, 2).len());
    }
}
