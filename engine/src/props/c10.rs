//! C10 — list/section conversions keep content and undo each other.

use super::actions::{self, Offered};
use crate::drive::api::{self, Lib};
use crate::drive::edits::Op;
use crate::drive::lsp::Server;
use crate::framework::*;
use crate::gen::doc::{self, DocCfg};
use crate::pathalg;
use crate::scan::{self, BKind, Lines, SBlock};
use proptest::prelude::*;
use serde::{Deserialize, Serialize};
use serde_json::{json, Value};

pub struct C10;

#[derive(Clone, Debug, Serialize, Deserialize)]
pub struct ConvCase {
    pub key: String,
    pub text: String,
    pub ext: String,
}

pub const KINDS: &[&str] = &["refactor.rewrite.section.list", "refactor.rewrite.list.section", "refactor.rewrite.list.type"];

fn link_targets(text: &str, key: &str) -> Vec<(String, String)> {
    let dir = pathalg::dir_of(key);
    crate::props::c06::links_in_order(text)
        .into_iter()
        .map(|l| {
            let t = if scan::is_ref_url(&l.dest) && !l.is_image { pathalg::resolve(&dir, pathalg::strip_md(&l.dest)) } else { l.dest.clone() };
            (if l.kind == "Autolink" { "Regular".to_string() } else { l.kind.clone() }, t)
        })
        .collect()
}

/// line span (first, last) of the part an action at `line` is allowed to rewrite
fn target_span(text: &str, line: usize, kind: &str) -> Option<(usize, usize)> {
    let s = scan::scan(text);
    let lines = Lines::new(text);
    let last_line = |b: &SBlock| lines.line_of(b.span.1.saturating_sub(1).max(b.span.0));
    if kind.ends_with("section.list") {
        // the section: from the heading to the line before the next heading of the same or a higher rank
        let hs = actions::headings(text);
        let (hl, level, _) = hs.iter().find(|(l, _, _)| *l == line)?.clone();
        let end = hs.iter().find(|(l, lv, _)| *l > hl && *lv <= level).map(|(l, _, _)| l - 1).unwrap_or(text.lines().count());
        return Some((hl, end));
    }
    // lists: innermost (change type) or top-level (to sections) list covering the line
    let mut best: Option<(usize, usize, usize)> = None; // (depth, first, last)
    fn rec(b: &SBlock, depth: usize, line: usize, lines: &Lines, best: &mut Option<(usize, usize, usize)>, innermost: bool) {
        if let BKind::List { .. } = b.kind {
            let first = lines.line_of(b.span.0);
            let last = lines.line_of(b.span.1.saturating_sub(1).max(b.span.0));
            if first <= line && line <= last {
                let better = match best {
                    None => true,
                    Some((d, _, _)) => if innermost { depth > *d } else { depth < *d },
                };
                if better {
                    *best = Some((depth, first, last));
                }
            }
        }
        for c in &b.children {
            rec(c, depth + 1, line, lines, best, innermost);
        }
    }
    let innermost = kind.ends_with("list.type");
    for b in &s.blocks {
        rec(b, 0, line, &lines, &mut best, innermost);
    }
    let _ = last_line;
    best.map(|(_, f, l)| (f, l))
}

fn changed_region(before: &str, after: &str) -> Option<(usize, usize)> {
    let a: Vec<&str> = before.lines().collect();
    let b: Vec<&str> = after.lines().collect();
    let mut p = 0;
    while p < a.len() && p < b.len() && a[p] == b[p] {
        p += 1;
    }
    if p == a.len() && p == b.len() {
        return None;
    }
    let mut s = 0;
    while s < a.len() - p && s < b.len() - p && a[a.len() - 1 - s] == b[b.len() - 1 - s] {
        s += 1;
    }
    Some((p, a.len().saturating_sub(s + 1).max(p)))
}

impl Property for C10 {
    type Case = ConvCase;
    fn id(&self) -> &'static str {
        "C10"
    }
    fn rule(&self) -> String {
        "a generated note (headings at every depth, nested mixed lists, sections holding code, quotes, tables and block references) in the root or a sub-directory, both refs_extension settings, already formatted; at every line the three conversions are requested and each offered action is resolved and applied to a copy; oracle: only that note is edited; the sequence of unique word tokens and the sequence of links (kind, resolved target) are unchanged; the changed lines lie inside the targeted section or list as an independent scan delimits it; changing a list's type twice (second request on the edited text through didChange) returns the formatted original byte-for-byte, and so does section -> list -> sections when no list is adjacent to the section; non-trivial = the converted part has >= 2 nesting levels or holds a block that is not text".into()
    }
    fn assumptions(&self) -> Vec<String> {
        vec!["the note is first brought to its normal form, so that formatting effects do not count as effects of the conversion".into(), "notes in which two lists touch each other are not generated: the targeted span and the round trips are modelled for lists that stand alone".into()]
    }
    fn domain_off(&self) -> Vec<&'static str> {
        vec!["crlf", "item_first_list", "item_first_heading", "empty_item", "html_block", "refdef", "link_title", "front_matter", "setext"]
    }
    fn max_shrink_iters(&self) -> u32 {
        400
    }
    /// coverage-guided phase: runs per job, set by what one case costs under instrumentation
    fn fuzz_runs(&self, tier: Tier) -> u64 {
        match tier {
            Tier::Quick => 0,
            Tier::Thorough => 500,
        }
    }
    fn cases(&self, tier: Tier) -> u64 {
        match tier {
            Tier::Quick => 1600,
            Tier::Thorough => 40_000,
        }
    }
    fn strategy(&self, features: &Features, _tier: Tier) -> BoxedStrategy<ConvCase> {
        let features = features.clone();
        prop_oneof![Just("doc".to_string()), Just("d/doc".to_string())]
            .prop_flat_map(move |key| {
                let mut cfg = DocCfg::new(&features);
                let dir = pathalg::dir_of(&key);
                cfg.pool.internal = vec![pathalg::relative(&dir, "t1"), pathalg::relative(&dir, "d/t2"), pathalg::relative(&dir, "zz")];
                cfg.inline_pool = Some(crate::gen::doc::LinkPool { internal: if dir.is_empty() && features.on("inline_internal_link") { vec!["t1".into(), "d/t2".into()] } else { vec![] }, external: vec!["https://example.com/p1".into()] });
                cfg.max_blocks = 6;
                cfg.depth = 3;
                cfg.title_p = 0.6;
                cfg.block_ref_weight = 5;
                (Just(key), doc::text(&cfg), prop_oneof![Just(String::new()), Just(".md".to_string())])
            })
            .prop_map(|(key, text, ext)| ConvCase { key, text, ext })
            .boxed()
    }
    fn check(&self, case: &ConvCase, stats: &mut Stats) -> Verdict {
        let s0 = scan::scan(&case.text);
        if let Some(r) = crate::canon::domain_discard(&s0) {
            return Verdict::Discard(r);
        }
        // Two lists that touch: the targeted span and the section round trip are modelled for lists
        // that stand alone (iwe keeps touching lists apart by alternating their markers, so converting
        // one legitimately re-marks its neighbour). Such notes were discarded while iwe wrote touching
        // lists as one (FX-ADJACENT-LISTS); since that fix they are judged on conservation and on
        // change-list-type twice = identity, which do not depend on the span model.
        let touching = {
            let o = crate::canon::CanonOpts { dir: String::new(), mask_refreshable: false };
            crate::canon::has_adjacent_lists_any(&crate::canon::canon(&s0, &o).blocks)
        };
        if touching {
            stats.class("touching-lists:conservation+type-twice");
        }
        let mut lib = Lib::new();
        lib.insert(case.key.clone(), case.text.clone());
        lib.insert("t1".into(), "# T one\n\nbody\n".into());
        lib.insert("d/t2".into(), "# T two\n".into());
        // normal form first
        let lib = api::format_library(&lib, &case.ext);
        let f = lib[&case.key].clone();
        let mut srv = Server::start(&lib, &case.ext, false, "");
        let offers = match actions::offered(&mut srv, &case.key, &f, KINDS) {
            Ok(o) => o,
            Err(e) => {
                let death = srv.loop_death();
                srv.kill();
                if let Some(rec) = death {
                    return Verdict::fail(rec.signature(), format!("server loop died: {} {}", rec.file, rec.message));
                }
                return Verdict::fail("c10|offer-error", e);
            }
        };
        let mut nontrivial = false;
        let fail = |srv: Server, sig: String, detail: String| {
            srv.kill();
            Verdict::fail(sig, detail)
        };
        let toks_before = actions::tokens(&f);
        let words_before: Vec<String> = toks_before.iter().map(|t| t.word.clone()).collect();
        let links_before = link_targets(&f, &case.key);
        for stale in offers.iter().take(40) {
            // node ids change with every didChange (the round trips below re-send the text): ask
            // again for the action at that line right before resolving it
            let fresh = match actions::offered_at(&mut srv, &case.key, stale.line, &stale.kind) {
                Ok(v) => v,
                Err(e) => return fail(srv, "c10|offer-error".into(), e),
            };
            let off = match fresh.into_iter().find(|o| o.kind == stale.kind) {
                Some(o) => o,
                None => return fail(srv, "c10|offer-vanished".into(), format!("{} was offered at line {} and is not offered any more on the same text
{}", stale.kind, stale.line, f)),
            };
            let off = &off;
            stats.class(&format!("kind:{}", off.kind.rsplit('.').take(2).collect::<Vec<_>>().join(".")));
            let ops = match actions::resolve(&mut srv, off) {
                Ok(o) => o,
                Err((s, d)) => return fail(srv, format!("c10|{}", s), format!("{} at line {} ({}): {}\n{}", off.kind, off.line, off.title, d, f)),
            };
            if ops.len() != 1 || !matches!(&ops[0], Op::Replace(k, _) if *k == case.key) {
                return fail(srv, "c10|edits-other-notes".into(), format!("{} at line {}: ops {:?}", off.kind, off.line, ops));
            }
            let after = match &ops[0] {
                Op::Replace(_, t) => t.clone(),
                _ => unreachable!(),
            };
            let head = format!("{} ({}) at line {} of {}\n--- before\n{}\n--- after\n{}\n", off.kind, off.title, off.line, case.key, f, after);
            let words_after: Vec<String> = actions::tokens(&after).iter().map(|t| t.word.clone()).collect();
            if words_after != words_before {
                let kind = if actions::multiset(&actions::tokens(&after)) == actions::multiset(&toks_before) { "word-order" } else { "words-lost-or-invented" };
                return fail(srv, format!("c10|{}", kind), format!("words before {:?}\nwords after  {:?}\n{}", words_before, words_after, head));
            }
            let links_after = link_targets(&after, &case.key);
            if links_after != links_before {
                return fail(srv, "c10|links-changed".into(), format!("links before {:?}\nlinks after  {:?}\n{}", links_before, links_after, head));
            }
            let in_quote = actions::line_in_quote(&f, off.line as usize);
            if in_quote || touching {
                // the targeted span is modelled for the note's own sections and lists
            } else if let (Some((c0, c1)), Some((t0, t1))) = (changed_region(&f, &after), target_span(&f, off.line as usize, &off.kind)) {
                // one blank line of slack on each side (separators move with the block)
                if c0 + 1 < t0 || c1 > t1 + 1 {
                    return fail(srv, "c10|rewrote-outside-target".into(), format!("changed lines {}..{} but the targeted part spans lines {}..{}\n{}", c0, c1, t0, t1, head));
                }
            }
            // inside a block quote only conservation is judged: "adjacent to another list" and the
            // targeted span are modelled for the note's own sections and lists
            if in_quote {
                stats.class("in-quote:conservation-only");
            }
            // round trips
            if in_quote {
            } else if off.kind.ends_with("list.type") {
                srv.did_change(&case.key, &after);
                let again = actions::offered(&mut srv, &case.key, &after, &["refactor.rewrite.list.type"]).unwrap_or_default();
                // the same list: an offer at the same line
                if let Some(o2) = again.iter().find(|o| o.line == off.line) {
                    match actions::resolve(&mut srv, o2) {
                        Ok(ops2) => {
                            if let Some(Op::Replace(_, back)) = ops2.first() {
                                if *back != f {
                                    return fail(srv, "c10|type-twice-differs".into(), format!("changing the list type twice does not restore the note\n--- restored\n{}\n{}", back, head));
                                }
                                stats.class("roundtrip:type-twice");
                            }
                        }
                        Err((s, d)) => return fail(srv, format!("c10|{}", s), d),
                    }
                } else {
                    return fail(srv, "c10|type-not-offered-again".into(), format!("after changing the list type the action is no longer offered at line {}\n{}", off.line, head));
                }
                srv.did_change(&case.key, &f);
            }
            if !in_quote && !touching && off.kind.ends_with("section.list") {
                // adjacent to a list? (block right before the heading or right after the section)
                let s = scan::scan(&f);
                let lines = Lines::new(&f);
                let (t0, t1) = target_span(&f, off.line as usize, &off.kind).unwrap_or((0, 0));
                let adjacent = s.blocks.iter().any(|b| {
                    matches!(b.kind, BKind::List { .. }) && {
                        let first = lines.line_of(b.span.0);
                        let last = lines.line_of(b.span.1.saturating_sub(1).max(b.span.0));
                        // inside the section counts as adjacent too: the new list would touch it
                        (last < t0 && t0 - last <= 2) || (first > t1 && first - t1 <= 2) || (first >= t0 && last <= t1)
                    }
                });
                // a section that follows a sibling section ends up inside that sibling as a list and
                // comes back one level deeper (known finding KF-SECTION-LIST-SIBLING)
                let hs = actions::headings(&f);
                let my = hs.iter().position(|(l, _, _)| *l == off.line as usize);
                let follows_sibling = match my {
                    Some(i) if i > 0 => hs[i - 1].1 >= hs[i].1,
                    _ => false,
                };
                if !adjacent && (!follows_sibling || feature_on("section_list_sibling")) {
                    srv.did_change(&case.key, &after);
                    let again = actions::offered(&mut srv, &case.key, &after, &["refactor.rewrite.list.section"]).unwrap_or_default();
                    if let Some(o2) = again.iter().find(|o| o.line == off.line) {
                        match actions::resolve(&mut srv, o2) {
                            Ok(ops2) => {
                                if let Some(Op::Replace(_, back)) = ops2.first() {
                                    if *back != f {
                                        return fail(srv, "c10|section-list-section-differs".into(), format!("section -> list -> sections does not restore the note\n--- restored\n{}\n{}", back, head));
                                    }
                                    stats.class("roundtrip:section-list-section");
                                }
                            }
                            Err((s, d)) => return fail(srv, format!("c10|{}", s), d),
                        }
                    }
                    srv.did_change(&case.key, &f);
                }
            }
            // non-trivial?
            if let Some((t0, t1)) = target_span(&f, off.line as usize, &off.kind) {
                let part: String = f.lines().skip(t0).take(t1 - t0 + 1).collect::<Vec<_>>().join("\n");
                if part.contains("```") || part.contains("> ") || part.contains('|') || part.lines().any(|l| l.starts_with("    ")) {
                    nontrivial = true;
                }
            }
        }
        if let Err((sig, detail)) = srv.finish("c10") {
            return Verdict::fail(sig, detail);
        }
        Verdict::Pass { nontrivial }
    }
    fn sample(&self, case: &ConvCase) -> Value {
        json!({"key": case.key, "text": case.text, "ext": case.ext})
    }
}

#[allow(dead_code)]
fn _unused(_: Offered) {}
