//! C05 — backlinks are exact.

use crate::drive::api;
use crate::framework::*;
use crate::gen::library::{self, LibCase};
use crate::model;
use liwe::graph::{Graph, GraphContext};
use liwe::model::node::NodePointer;
use liwe::model::Key;
use proptest::prelude::*;
use std::collections::BTreeSet;

pub struct C05;

pub fn node_place(g: &Graph, id: u64) -> (String, Option<usize>) {
    let key = g.node(id).node_key().to_string();
    (key, g.node_line_range(id).map(|r| r.start))
}

impl Property for C05 {
    type Case = LibCase;
    fn id(&self) -> &'static str {
        "C05"
    }
    fn rule(&self) -> String {
        "(each library is judged twice: imported, and reached through updates of every note from another text) libraries of 1-6 notes over root and sub-directories with links in paragraphs, headings, list items, nested items, emphasis, quotes, tables and as block references, many-to-one, to self, to missing notes and to external URLs, in every spelling; oracle: for every note and missing target the set of (linking note, first line of the linking block) computed from an independent scan with own path algebra equals the set reported by get_block_references_to and by get_inline_references_to (both directions); non-trivial = a link crossing directories or >= 2 links to one target from different block kinds".into()
    }
    fn assumptions(&self) -> Vec<String> {
        vec!["LF line endings (positions under CRLF are C13's business)".into(), "images are not links".into()]
    }
    fn domain_off(&self) -> Vec<&'static str> {
        vec!["crlf", "item_first_list", "item_first_heading", "empty_item", "html_block"]
    }
    fn cases(&self, tier: Tier) -> u64 {
        match tier {
            Tier::Quick => 4000,
            Tier::Thorough => 80_000,
        }
    }
    fn strategy(&self, features: &Features, _tier: Tier) -> BoxedStrategy<LibCase> {
        library::library(features, 6, 5)
    }
    fn check(&self, case: &LibCase, stats: &mut Stats) -> Verdict {
        let lib = case.lib();
        for text in lib.values() {
            if let Some(r) = crate::canon::domain_discard(&crate::scan::scan(text)) {
                return Verdict::Discard(r);
            }
        }
        let imported = Graph::import(&api::to_state(&lib), api::opts(&case.ext));
        // second door: the same library reached through edits, as a server reaches it - every note
        // first holds the text of its neighbour, then is updated to its own text (last note first),
        // and the first note is sent once more unchanged
        let keys: Vec<String> = lib.keys().cloned().collect();
        let mut shifted = api::Lib::new();
        for (i, k) in keys.iter().enumerate() {
            shifted.insert(k.clone(), lib[&keys[(i + 1) % keys.len()]].clone());
        }
        let mut db = liwe::database::Database::new(api::to_state(&shifted), true, api::opts(&case.ext));
        for k in keys.iter().rev() {
            db.update_document(Key::from_file_name(k), lib[k].clone());
        }
        if let Some(k) = keys.first() {
            db.update_document(Key::from_file_name(k), lib[k].clone());
        }
        stats.class("door:import");
        stats.class("door:edited-into-place");
        let occ = model::link_occurrences(&lib);
        for (door, g) in [("", &imported), ("history|", db.graph())] {
        let (eb, ei) = model::backlinks(&occ);
        let mut targets: BTreeSet<String> = lib.keys().cloned().collect();
        targets.extend(eb.keys().cloned());
        targets.extend(ei.keys().cloned());
        let empty = BTreeSet::new();
        for t in &targets {
            let key = Key::from_file_name(t);
            for (name, expected, got_ids) in [
                ("block", eb.get(t).unwrap_or(&empty), g.get_block_references_to(&key)),
                ("inline", ei.get(t).unwrap_or(&empty), g.get_inline_references_to(&key)),
            ] {
                let got: BTreeSet<(String, Option<usize>)> = got_ids.iter().map(|id| node_place(g, *id)).collect();
                let exp: BTreeSet<(String, Option<usize>)> = expected.iter().map(|(o, l)| (o.clone(), Some(*l))).collect();
                if got != exp {
                    let missing: Vec<_> = exp.difference(&got).collect();
                    let extra: Vec<_> = got.difference(&exp).collect();
                    let kind = if !missing.is_empty() && extra.iter().any(|e| e.1.is_none()) {
                        "no-line"
                    } else if !missing.is_empty() {
                        "missing"
                    } else {
                        "extra"
                    };
                    let mut detail = format!("{}{} references to {:?}: missing {:?}, unexpected {:?}\n", if door.is_empty() { "" } else { "(library reached through updates) " }, name, t, missing, extra);
                    for (k, v) in &lib {
                        detail.push_str(&format!("--- {}\n{}\n", k, v));
                    }
                    return Verdict::fail(format!("c05|{}{}:{}", door, name, kind), detail);
                }
            }
        }
        }
        let (eb, ei) = model::backlinks(&occ);
        let mut targets: BTreeSet<String> = lib.keys().cloned().collect();
        targets.extend(eb.keys().cloned());
        targets.extend(ei.keys().cloned());
        let cross_dir = occ.iter().any(|o| crate::pathalg::dir_of(&o.owner) != crate::pathalg::dir_of(&o.target));
        let multi = targets.iter().any(|t| eb.get(t).map(|s| s.len()).unwrap_or(0) + ei.get(t).map(|s| s.len()).unwrap_or(0) >= 2);
        stats.class_n("links", occ.len() as u64);
        if cross_dir {
            stats.class("cross-dir");
        }
        if occ.iter().any(|o| o.owner == o.target) {
            stats.class("self-link");
        }
        if occ.iter().any(|o| !lib.contains_key(&o.target)) {
            stats.class("missing-target");
        }
        Verdict::Pass { nontrivial: cross_dir || multi }
    }
    fn sample(&self, case: &LibCase) -> serde_json::Value {
        serde_json::json!({"notes": case.notes, "ext": case.ext})
    }
}
