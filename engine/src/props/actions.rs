//! Shared helpers for the refactoring properties (C09, C10): enumerate code actions per line,
//! resolve them, apply the edits to a copy, and token / outline utilities for the oracles.

use crate::drive::api::Lib;
use crate::drive::edits::{self, Op};
use crate::drive::lsp::{Answer, Server};
use crate::scan::{self, BKind, Lines, SBlock};
use serde_json::Value;

#[derive(Debug, Clone)]
pub struct Offered {
    pub key: String,
    pub line: u32,
    pub kind: String,
    pub title: String,
    pub action: Value,
}

/// All actions of the given kinds offered at every line of `key`.
pub fn offered(srv: &mut Server, key: &str, text: &str, kinds: &[&str]) -> Result<Vec<Offered>, String> {
    let mut out = vec![];
    let nlines = text.lines().count() as u32;
    for line in 0..nlines {
        for kind in kinds {
            let a = srv.code_actions(key, line, Some(kind));
            match a {
                Answer::Ok(Value::Array(acts)) => {
                    for act in acts {
                        out.push(Offered {
                            key: key.to_string(),
                            line,
                            kind: act.get("kind").and_then(|k| k.as_str()).unwrap_or("").to_string(),
                            title: act.get("title").and_then(|k| k.as_str()).unwrap_or("").to_string(),
                            action: act,
                        });
                    }
                }
                Answer::Ok(_) => {}
                Answer::Err(c, m) => return Err(format!("codeAction {}:{} kind {} -> error {} {}", key, line, kind, c, m)),
                other => return Err(format!("codeAction {}:{} kind {} -> {:?}", key, line, kind, other)),
            }
        }
    }
    Ok(out)
}

/// Actions of one kind offered at one line.
pub fn offered_at(srv: &mut Server, key: &str, line: u32, kind: &str) -> Result<Vec<Offered>, String> {
    match srv.code_actions(key, line, Some(kind)) {
        Answer::Ok(Value::Array(acts)) => Ok(acts
            .into_iter()
            .map(|act| Offered {
                key: key.to_string(),
                line,
                kind: act.get("kind").and_then(|k| k.as_str()).unwrap_or("").to_string(),
                title: act.get("title").and_then(|k| k.as_str()).unwrap_or("").to_string(),
                action: act,
            })
            .collect()),
        Answer::Ok(_) => Ok(vec![]),
        other => Err(format!("codeAction {}:{} kind {} -> {:?}", key, line, kind, other)),
    }
}

/// Resolve an offered action and decode its edit.
pub fn resolve(srv: &mut Server, off: &Offered) -> Result<Vec<Op>, (String, String)> {
    match srv.resolve(&off.action) {
        Answer::Ok(v) => {
            let edit = v.get("edit").cloned().unwrap_or(Value::Null);
            if edit.is_null() {
                return Err(("resolve-no-edit".into(), format!("resolved action has no edit: {}", v)));
            }
            edits::decode(&edit).map_err(|e| ("edit-shape".into(), e))
        }
        Answer::Err(c, m) => Err(("resolve-error".into(), format!("codeAction/resolve answered with error {} {}", c, m))),
        other => Err(("resolve-no-answer".into(), format!("{:?}", other))),
    }
}

pub fn apply(lib: &Lib, ops: &[Op]) -> Result<Lib, (String, String)> {
    edits::apply(lib, ops).map_err(|e| ("edit-inapplicable".into(), format!("{} (ops {:?})", e, ops)))
}

/// Unique word tokens (alphabetic base + digits) of a text in scan order, with the heading path
/// (texts of the open headings, outermost first) and whether the token sits in a link text.
#[derive(Debug, Clone, PartialEq)]
pub struct Tok {
    pub word: String,
    pub path: Vec<String>,
    pub in_link: bool,
    pub line: usize,
}

fn is_token(w: &str) -> bool {
    w.chars().last().map(|c| c.is_ascii_digit()).unwrap_or(false) && w.chars().any(|c| !c.is_ascii_digit()) && w.chars().all(|c| c.is_alphanumeric())
}

fn words_of(inl: &[scan::SInline], in_link: bool, out: &mut Vec<(String, bool)>) {
    for i in inl {
        match i {
            scan::SInline::Text(t) => {
                for w in t.split(|c: char| !c.is_alphanumeric()) {
                    if is_token(w) {
                        out.push((w.to_string(), in_link));
                    }
                }
            }
            scan::SInline::Emph(c) | scan::SInline::Strong(c) | scan::SInline::Strike(c) => words_of(c, in_link, out),
            scan::SInline::Link { children, .. } => words_of(children, true, out),
            scan::SInline::Image { children, .. } => words_of(children, in_link, out),
            _ => {}
        }
    }
}

pub fn tokens(text: &str) -> Vec<Tok> {
    let s = scan::scan(text);
    let lines = Lines::new(text);
    let mut out = vec![];
    // heading stack over top-level blocks only (headings in containers do not open sections)
    let mut stack: Vec<(u8, String)> = vec![];
    fn rec(b: &SBlock, path: &[String], lines: &Lines, out: &mut Vec<Tok>) {
        let mut ws = vec![];
        words_of(&b.inlines, false, &mut ws);
        for (w, l) in ws {
            out.push(Tok { word: w, path: path.to_vec(), in_link: l, line: lines.line_of(b.span.0) });
        }
        // (code bodies are random text, not unique tokens: they are compared as whole bodies elsewhere)
        for c in &b.children {
            rec(c, path, lines, out);
        }
    }
    for b in &s.blocks {
        if let BKind::Heading(l) = b.kind {
            while let Some(top) = stack.last() {
                if top.0 >= l {
                    stack.pop();
                } else {
                    break;
                }
            }
            let path: Vec<String> = stack.iter().map(|(_, t)| t.clone()).collect();
            rec(b, &path, &lines, &mut out);
            stack.push((l, scan::collapse_ws(&scan::plain_text(&b.inlines))));
        } else {
            let path: Vec<String> = stack.iter().map(|(_, t)| t.clone()).collect();
            rec(b, &path, &lines, &mut out);
        }
    }
    out
}

pub fn multiset(toks: &[Tok]) -> std::collections::BTreeMap<String, i64> {
    let mut m = std::collections::BTreeMap::new();
    for t in toks {
        *m.entry(t.word.clone()).or_insert(0) += 1;
    }
    m
}

/// top-level headings of a text: (line, level, text)
/// Whether `line` lies inside a block quote (at any nesting).
pub fn line_in_quote(text: &str, line: usize) -> bool {
    fn walk(bs: &[scan::SBlock], lines: &Lines, line: usize) -> bool {
        bs.iter().any(|b| {
            if matches!(b.kind, BKind::Quote) {
                let (a, z) = (lines.line_of(b.span.0), lines.line_of(b.span.1.saturating_sub(1).max(b.span.0)));
                if a <= line && line <= z {
                    return true;
                }
            }
            walk(&b.children, lines, line)
        })
    }
    let s = scan::scan(text);
    walk(&s.blocks, &Lines::new(text), line)
}

pub fn headings(text: &str) -> Vec<(usize, u8, String)> {
    let s = scan::scan(text);
    let lines = Lines::new(text);
    s.blocks
        .iter()
        .filter_map(|b| match b.kind {
            BKind::Heading(l) => Some((lines.line_of(b.span.0), l, scan::collapse_ws(&scan::plain_text(&b.inlines)))),
            _ => None,
        })
        .collect()
}

pub fn dump(before: &Lib, after: &Lib) -> String {
    let mut d = String::new();
    for (k, v) in before {
        d.push_str(&format!("--- {} (before)\n{}\n", k, v));
    }
    for (k, v) in after {
        if before.get(k) != Some(v) {
            d.push_str(&format!("--- {} (after)\n{}\n", k, v));
        }
    }
    for k in before.keys() {
        if !after.contains_key(k) {
            d.push_str(&format!("--- {} deleted\n", k));
        }
    }
    d
}

/// multiset of code block bodies of a text
pub fn code_bodies(text: &str) -> Vec<String> {
    let s = scan::scan(text);
    let mut out = vec![];
    scan::walk(&s.blocks, &mut |b, _| {
        if matches!(b.kind, BKind::Code { .. }) {
            out.push(b.text.lines().map(|l| l.trim_end()).collect::<Vec<_>>().join("\n").trim_matches('\n').to_string());
        }
    });
    out.sort();
    out
}
