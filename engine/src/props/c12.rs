//! C12 — every request gets exactly one response and the server keeps serving.

use crate::drive::lsp::{self, Answer, Server};
use crate::framework::*;
use crate::gen::library::{self, LibCase};
use proptest::collection::vec;
use proptest::prelude::*;
use serde::{Deserialize, Serialize};
use serde_json::{json, Value};

pub struct C12;

#[derive(Clone, Debug, Serialize, Deserialize)]
pub enum UriKind {
    /// index into the library's notes (mod len)
    Note(u8),
    UnknownInBase,
    UnknownNested,
    OutsideBase,
    NotMarkdown,
}

#[derive(Clone, Debug, Serialize, Deserialize)]
pub enum DataKind {
    /// resolve an action that was really offered (index into the last code action answer)
    Live(u8),
    Stale(u64),
    Huge,
    NotANumber,
    Missing,
}

#[derive(Clone, Debug, Serialize, Deserialize)]
pub enum Req {
    Formatting(UriKind),
    References(UriKind),
    InlayHint(UriKind),
    DocumentSymbol(UriKind),
    Definition(UriKind, u32, u32),
    PrepareRename(UriKind, u32, u32),
    Rename(UriKind, u32, u32, String),
    CodeAction(UriKind, u32, Option<String>),
    Resolve(DataKind, String),
    WorkspaceSymbol(String),
    Completion(UriKind, u32, u32),
    CompletionResolve,
    InlineValues(UriKind),
    ExecuteCommand(u8),
    Unknown(String),
    DidChange(UriKind, String),
    DidSave(UriKind, Option<String>),
    /// a notification the server cannot use: 0 didSave without params, 1 didChange with an empty
    /// change list, 2 didChange whose params are a string, 3 $/cancelRequest, 4 an unknown
    /// notification, 5 didOpen, 6 didClose
    OddNotification(u8),
}

#[derive(Clone, Debug, Serialize, Deserialize)]
pub struct SeqCase {
    pub lib: LibCase,
    pub reqs: Vec<Req>,
    pub helix: bool,
}

pub const KINDS: &[&str] = &[
    "refactor.rewrite.list.type",
    "refactor.rewrite.list.section",
    "refactor.inline.reference.section",
    "refactor.inline.reference.quote",
    "refactor.rewrite.section.list",
    "refactor.extract.section",
    "refactor.extract.subsections",
    "refactor.unknown.kind",
    "quickfix",
];

fn uri_kind() -> impl Strategy<Value = UriKind> {
    prop_oneof![
        8 => (0u8..8).prop_map(UriKind::Note),
        1 => Just(UriKind::UnknownInBase),
        1 => Just(UriKind::UnknownNested),
        1 => Just(UriKind::OutsideBase),
        1 => Just(UriKind::NotMarkdown),
    ]
}

fn pos() -> impl Strategy<Value = (u32, u32)> {
    prop_oneof![
        6 => (0u32..12, 0u32..30),
        1 => (0u32..12, Just(u32::MAX)),
        1 => (Just(u32::MAX), 0u32..5),
        1 => (10_000u32..10_010, 0u32..3),
    ]
}

fn kind() -> impl Strategy<Value = String> {
    proptest::sample::select(KINDS.to_vec()).prop_map(|s| s.to_string())
}

fn new_name() -> impl Strategy<Value = String> {
    prop_oneof![Just("fresh".to_string()), Just("a".to_string()), Just("sub/dir/name".to_string()), Just("d/a".to_string()), Just(String::new())]
}

fn small_text() -> impl Strategy<Value = String> {
    prop_oneof![
        Just(String::new()),
        Just("# t\n\npara [x](a)\n".to_string()),
        Just("- item\n  - sub\n\n[b](b)\n".to_string()),
        Just("# one\n\n## two\n\ntext\n\n## three\n".to_string()),
    ]
}

fn req(features: &Features) -> BoxedStrategy<Req> {
    let unknown_method = features.on("unknown_method");
    let exec = features.on("execute_command");
    let mut opts: Vec<(u32, BoxedStrategy<Req>)> = vec![
        (3, uri_kind().prop_map(Req::Formatting).boxed()),
        (2, uri_kind().prop_map(Req::References).boxed()),
        (2, uri_kind().prop_map(Req::InlayHint).boxed()),
        (2, uri_kind().prop_map(Req::DocumentSymbol).boxed()),
        (2, (uri_kind(), pos()).prop_map(|(u, (l, c))| Req::Definition(u, l, c)).boxed()),
        (2, (uri_kind(), pos()).prop_map(|(u, (l, c))| Req::PrepareRename(u, l, c)).boxed()),
        (2, (uri_kind(), pos(), new_name()).prop_map(|(u, (l, c), n)| Req::Rename(u, l, c, n)).boxed()),
        (4, (uri_kind(), pos(), proptest::option::of(kind())).prop_map(|(u, (l, _), k)| Req::CodeAction(u, l, k)).boxed()),
        (
            4,
            (
                prop_oneof![
                    5 => (0u8..6).prop_map(DataKind::Live),
                    2 => (0u64..60).prop_map(DataKind::Stale),
                    1 => Just(DataKind::Huge),
                    1 => Just(DataKind::NotANumber),
                    1 => Just(DataKind::Missing),
                ],
                kind(),
            )
                .prop_map(|(d, k)| Req::Resolve(d, k))
                .boxed(),
        ),
        (2, prop_oneof![Just(String::new()), Just("w".to_string()), "[a-z]{1,4}"].prop_map(Req::WorkspaceSymbol).boxed()),
        (1, (uri_kind(), pos()).prop_map(|(u, (l, c))| Req::Completion(u, l, c)).boxed()),
        (1, Just(Req::CompletionResolve).boxed()),
        (1, uri_kind().prop_map(Req::InlineValues).boxed()),
        (2, (uri_kind(), small_text()).prop_map(|(u, t)| Req::DidChange(u, t)).boxed()),
        (1, (uri_kind(), proptest::option::of(small_text())).prop_map(|(u, t)| Req::DidSave(u, t)).boxed()),
    ];
    opts.push((1, (0u8..7).prop_map(Req::OddNotification).boxed()));
    if exec {
        opts.push((1, (0u8..4).prop_map(Req::ExecuteCommand).boxed()));
    }
    if unknown_method {
        opts.push((
            1,
            prop_oneof![Just("textDocument/hover"), Just("textDocument/foldingRange"), Just("$/unknown"), Just("workspace/willRenameFiles")]
                .prop_map(|s| Req::Unknown(s.to_string()))
                .boxed(),
        ));
    }
    proptest::strategy::Union::new_weighted(opts).boxed()
}

pub fn resolve_uri(u: &UriKind, keys: &[String]) -> lsp_types::Url {
    match u {
        UriKind::Note(i) => lsp::uri_of(&keys[(*i as usize) % keys.len()]),
        UriKind::UnknownInBase => lsp::uri_of("no-such-note"),
        UriKind::UnknownNested => lsp::uri_of("no/such/dir/note"),
        UriKind::OutsideBase => lsp_types::Url::parse("file:///elsewhere/x.md").unwrap(),
        UriKind::NotMarkdown => lsp_types::Url::parse("file:///basepath/picture.png").unwrap(),
    }
}

fn is_unknown(u: &UriKind) -> bool {
    !matches!(u, UriKind::Note(_))
}

impl Property for C12 {
    type Case = SeqCase;
    fn id(&self) -> &'static str {
        "C12"
    }
    fn rule(&self) -> String {
        "a small generated library and a sequence of 1-14 requests and notifications over all advertised methods (plus unknown ones) with well-typed but arbitrary parameters: uris of known notes, unknown notes, notes outside the base path and non-Markdown files, positions anywhere up to u32::MAX, code action kinds known and unknown, resolve data live / stale / huge / non-number / missing, executeCommand known / unknown / without arguments; after each request a liveness probe (workspace/symbol) and at the end shutdown + exit; oracle: exactly one response (result or error) per request id - zero (worker died, seen by the panic hook) and two are violations - every probe answered, shutdown answered, loop thread ends cleanly; non-trivial = at least one request whose target does not exist followed by a request on an existing note".into()
    }
    fn assumptions(&self) -> Vec<String> {
        vec!["no-response is detected by event (panic on the worker thread with no response sent), a 30 s backstop ends in inconclusive".into()]
    }
    fn domain_off(&self) -> Vec<&'static str> {
        vec!["crlf", "item_first_list", "item_first_heading", "empty_item", "html_block"]
    }
    fn max_shrink_iters(&self) -> u32 {
        600
    }
    fn cases(&self, tier: Tier) -> u64 {
        match tier {
            Tier::Quick => 2000,
            Tier::Thorough => 50_000,
        }
    }
    fn strategy(&self, features: &Features, _tier: Tier) -> BoxedStrategy<SeqCase> {
        (library::library(features, 4, 4), vec(req(features), 1..14), proptest::bool::weighted(0.15))
            .prop_map(|(lib, reqs, helix)| SeqCase { lib, reqs, helix })
            .boxed()
    }
    fn check(&self, case: &SeqCase, stats: &mut Stats) -> Verdict {
        let lib = case.lib.lib();
        if let Some(r) = crate::model::lib_domain_discard(&lib) {
            return Verdict::Discard(r);
        }
        let keys: Vec<String> = lib.keys().cloned().collect();
        let mut srv = Server::start(&lib, &case.lib.ext, false, if case.helix { "helix" } else { "" });
        let mut last_actions: Vec<Value> = vec![];
        let mut saw_unknown = false;
        let mut nontrivial = false;
        let mut verdict: Option<Verdict> = None;
        for (n, r) in case.reqs.iter().enumerate() {
            let (method, params, unknown): (String, Value, bool) = match r {
                Req::Formatting(u) => (
                    "textDocument/formatting".into(),
                    json!({"textDocument": {"uri": resolve_uri(u, &keys)}, "options": {"tabSize": 2, "insertSpaces": true}}),
                    is_unknown(u),
                ),
                Req::References(u) => (
                    "textDocument/references".into(),
                    json!({"textDocument": {"uri": resolve_uri(u, &keys)}, "position": {"line": 0, "character": 0}, "context": {"includeDeclaration": true}}),
                    is_unknown(u),
                ),
                Req::InlayHint(u) => (
                    "textDocument/inlayHint".into(),
                    json!({"textDocument": {"uri": resolve_uri(u, &keys)}, "range": {"start": {"line": 0, "character": 0}, "end": {"line": 50, "character": 0}}}),
                    is_unknown(u),
                ),
                Req::DocumentSymbol(u) => ("textDocument/documentSymbol".into(), json!({"textDocument": {"uri": resolve_uri(u, &keys)}}), is_unknown(u)),
                Req::Definition(u, l, c) => (
                    "textDocument/definition".into(),
                    json!({"textDocument": {"uri": resolve_uri(u, &keys)}, "position": {"line": l, "character": c}}),
                    is_unknown(u),
                ),
                Req::PrepareRename(u, l, c) => (
                    "textDocument/prepareRename".into(),
                    json!({"textDocument": {"uri": resolve_uri(u, &keys)}, "position": {"line": l, "character": c}}),
                    is_unknown(u),
                ),
                Req::Rename(u, l, c, name) => (
                    "textDocument/rename".into(),
                    json!({"textDocument": {"uri": resolve_uri(u, &keys)}, "position": {"line": l, "character": c}, "newName": name}),
                    is_unknown(u),
                ),
                Req::CodeAction(u, l, k) => {
                    let mut ctx = json!({"diagnostics": []});
                    if let Some(k) = k {
                        ctx["only"] = json!([k]);
                    }
                    (
                        "textDocument/codeAction".into(),
                        json!({"textDocument": {"uri": resolve_uri(u, &keys)}, "range": {"start": {"line": l, "character": 0}, "end": {"line": l, "character": 0}}, "context": ctx}),
                        is_unknown(u),
                    )
                }
                Req::Resolve(d, k) => {
                    let (action, unk) = match d {
                        DataKind::Live(i) if !last_actions.is_empty() => (last_actions[(*i as usize) % last_actions.len()].clone(), false),
                        DataKind::Live(_) => (json!({"title": "x", "kind": k, "data": 1}), true),
                        DataKind::Stale(n) => (json!({"title": "x", "kind": k, "data": 100_000 + n}), true),
                        DataKind::Huge => (json!({"title": "x", "kind": k, "data": u64::MAX}), true),
                        DataKind::NotANumber => (json!({"title": "x", "kind": k, "data": "seven"}), true),
                        DataKind::Missing => (json!({"title": "x", "kind": k}), true),
                    };
                    ("codeAction/resolve".into(), action, unk)
                }
                Req::WorkspaceSymbol(q) => ("workspace/symbol".into(), json!({"query": q}), false),
                Req::Completion(u, l, c) => (
                    "textDocument/completion".into(),
                    json!({"textDocument": {"uri": resolve_uri(u, &keys)}, "position": {"line": l, "character": c}}),
                    is_unknown(u),
                ),
                Req::CompletionResolve => ("completionItem/resolve".into(), json!({"label": "x"}), false),
                Req::InlineValues(u) => (
                    "textDocument/inlineValues".into(),
                    json!({"textDocument": {"uri": resolve_uri(u, &keys)}, "range": {"start": {"line": 0, "character": 0}, "end": {"line": 1, "character": 0}}, "context": {"frameId": 1, "stoppedLocation": {"start": {"line": 0, "character": 0}, "end": {"line": 1, "character": 0}}}}),
                    is_unknown(u),
                ),
                Req::ExecuteCommand(v) => {
                    let p = match v {
                        0 => json!({"command": "generate", "arguments": [{"new_key": "gen1", "prompt_key": keys[0], "target_key": keys[0]}]}),
                        1 => json!({"command": "generate", "arguments": []}),
                        2 => json!({"command": "no-such-command", "arguments": []}),
                        _ => json!({"command": "generate", "arguments": [{"new_key": "gen2", "prompt_key": "no-such", "target_key": "no-such"}]}),
                    };
                    ("workspace/executeCommand".into(), p, *v != 0)
                }
                Req::Unknown(m) => (m.clone(), json!({}), true),
                Req::DidChange(u, t) => {
                    let uri = resolve_uri(u, &keys);
                    srv.notify("textDocument/didChange", json!({"textDocument": {"uri": uri, "version": 2}, "contentChanges": [{"text": t}]}));
                    continue;
                }
                Req::OddNotification(v) => {
                    let uri = lsp::uri_of(&keys[0]);
                    let (m, p) = match v {
                        0 => ("textDocument/didSave", json!({})),
                        1 => ("textDocument/didChange", json!({"textDocument": {"uri": uri, "version": 3}, "contentChanges": []})),
                        2 => ("textDocument/didChange", json!("not an object")),
                        3 => ("$/cancelRequest", json!({"id": 1})),
                        4 => ("workspace/didChangeConfiguration", json!({"settings": {}})),
                        5 => ("textDocument/didOpen", json!({"textDocument": {"uri": uri, "languageId": "markdown", "version": 1, "text": "# opened\n"}})),
                        _ => ("textDocument/didClose", json!({"textDocument": {"uri": uri}})),
                    };
                    stats.class(&format!("odd-notification:{}", v));
                    srv.notify(m, p);
                    saw_unknown = true;
                    // the server must still be there afterwards
                    let p = srv.workspace_symbols("");
                    if !p.responded() {
                        if let Some(rec) = srv.loop_death() {
                            verdict = Some(Verdict::fail(rec.signature(), format!("the server loop died after notification {}: panic at {}: {}\nsequence: {:?}", m, rec.file, rec.message, case.reqs)));
                        } else {
                            verdict = Some(Verdict::fail(
                                format!("c12|probe-dead-after|{}", m),
                                format!("liveness probe after notification #{} {} was not answered: {:?}\nsequence: {:?}", n, m, p, case.reqs),
                            ));
                        }
                        break;
                    }
                    continue;
                }
                Req::DidSave(u, t) => {
                    let uri = resolve_uri(u, &keys);
                    srv.notify("textDocument/didSave", json!({"textDocument": {"uri": uri}, "text": t}));
                    continue;
                }
            };
            stats.class(&format!("m:{}", method));
            if unknown {
                stats.class("target-unknown");
                saw_unknown = true;
            } else if saw_unknown {
                nontrivial = true;
            }
            let a = srv.request(&method, params);
            match &a {
                Answer::Ok(v) => {
                    if method == "textDocument/codeAction" {
                        last_actions = v.as_array().cloned().unwrap_or_default();
                    }
                }
                Answer::Err(_, _) => {}
                Answer::NoResponse(rec) => {
                    verdict = Some(Verdict::fail(
                        format!("c12|no-response|{}|{}", method, rec.signature()),
                        format!("request #{} {} {:?} was never answered: worker thread panicked at {}: {}\nsequence: {:?}", n, method, r, rec.file, rec.message, case.reqs),
                    ));
                    break;
                }
                Answer::Timeout => {
                    verdict = Some(Verdict::fail(
                        format!("c12|no-response|{}|timeout", method),
                        format!("request #{} {} {:?} got no response within 30 s and no worker panic was seen\nsequence: {:?}", n, method, r, case.reqs),
                    ));
                    break;
                }
                Answer::Disconnected => {
                    if let Some(rec) = srv.loop_death() {
                        verdict = Some(Verdict::fail(rec.signature(), format!("the server loop died: panic at {}: {}\nsequence: {:?}", rec.file, rec.message, case.reqs)));
                        break;
                    }
                    verdict = Some(Verdict::fail(
                        format!("c12|server-gone|{}", method),
                        format!("server side of the connection is gone at request #{} {}\nsequence: {:?}", n, method, case.reqs),
                    ));
                    break;
                }
            }
            // liveness probe
            let p = srv.workspace_symbols("");
            if !p.responded() {
                verdict = Some(Verdict::fail(
                    format!("c12|probe-dead-after|{}", method),
                    format!("liveness probe after request #{} {} was not answered: {:?}\nsequence: {:?}", n, method, p, case.reqs),
                ));
                break;
            }
        }
        if verdict.is_none() && !srv.extra_responses.is_empty() {
            verdict = Some(Verdict::fail(
                "c12|double-response",
                format!("responses with ids that were already answered or never sent: {:?}", srv.extra_responses),
            ));
        }
        if let Some(v) = verdict {
            srv.kill();
            return v;
        }
        let extra = srv.extra_responses.len();
        let (answered, joined, death) = srv.shutdown();
        if let Some(rec) = death {
            return Verdict::fail(rec.signature(), format!("the server loop died: panic at {}: {}\nsequence: {:?}", rec.file, rec.message, case.reqs));
        }
        if !answered {
            return Verdict::fail("c12|shutdown-unanswered", format!("shutdown was not answered\nsequence: {:?}", case.reqs));
        }
        if !joined {
            return Verdict::fail("c12|exit-hangs", format!("exit did not end the loop cleanly\nsequence: {:?}", case.reqs));
        }
        let _ = extra;
        Verdict::Pass { nontrivial }
    }
    fn sample(&self, case: &SeqCase) -> Value {
        json!({"notes": case.lib.notes.iter().map(|(k, _)| k.clone()).collect::<Vec<_>>(), "reqs": format!("{:?}", case.reqs)})
    }
}
