//! C07 — the outline survives formatting and comes out well-nested.

use super::common::*;
use crate::canon::{self, CanonOpts};
use crate::framework::*;
use crate::gen::doc::DocCfg;
use crate::scan;
use proptest::prelude::*;

pub struct C07;

impl Property for C07 {
    type Case = DocCase;
    fn id(&self) -> &'static str {
        "C07"
    }
    fn rule(&self) -> String {
        "documents biased to headings (levels 1-6, ATX and setext), nested mixed lists with multi-block items, long lists and quotes, including items that start with a heading or a list and empty items; oracle: block tree of an independent scan of the output equals that of the input after the three restructurings the property allows (same headings in order with their text, every block in the same container chain at the same depth, ordered stays ordered), and per scope (document, quote, list item) well-nested input heading levels are reproduced identically while other level sequences come out well-nested; non-trivial = a scope with >= 3 headings containing a skip or a decrease, or list depth >= 2, or >= 10 list items".into()
    }
    fn assumptions(&self) -> Vec<String> {
        vec!["pulldown-cmark defines the input outline".into(), "the restructurings of the C07 quantifier are applied to the expected side".into()]
    }
    fn cases(&self, tier: Tier) -> u64 {
        match tier {
            Tier::Quick => 8000,
            Tier::Thorough => 200_000,
        }
    }
    fn strategy(&self, features: &Features, _tier: Tier) -> BoxedStrategy<DocCase> {
        // bias: fewer leaf kinds so that headings and lists dominate
        let mut f = features.clone();
        for k in ["table", "html_block", "image", "inline_html", "code_span", "emph", "refdef", "front_matter"] {
            // keep them in one worker out of four (index parity is not known here, so keep a lighter doc instead)
            let _ = k;
        }
        f.off.insert("html_block".into());
        let mut cfg = DocCfg::new(&f);
        cfg.max_blocks = 9;
        cfg.depth = 4;
        (crate::gen::doc::text(&cfg), prop_oneof![Just(String::new()), Just(".md".to_string())], prop_oneof![Just(0u8), Just(1u8), Just(3u8)])
            .prop_map(|(text, ext, door)| DocCase { text, ext, door, prev: String::new() })
            .boxed()
    }
    fn check(&self, case: &DocCase, stats: &mut Stats) -> Verdict {
        let out = super::c02::format(case, &case.text);
        let o = CanonOpts { dir: String::new(), mask_refreshable: true };
        let s_in = scan::scan(&case.text);
        if let Some(r) = canon::domain_discard(&s_in) {
            return Verdict::Discard(r);
        }
        if case.door == 2 {
            if let Some(r) = canon::domain_discard(&scan::scan(&case.prev)) {
                return Verdict::Discard(r);
            }
        }
        let s_out = scan::scan(&out);
        let st = canon::scan_stats(&s_in, &case.text);
        let mut a = canon::canon(&s_in, &o);
        let b = canon::canon(&s_out, &o);
        let before = a.blocks.clone();
        canon::restructure(&mut a.blocks);
        canon::drop_empty_quotes(&mut a.blocks);
        let mut b = b;
        canon::drop_empty_quotes(&mut b.blocks);
        if before != a.blocks {
            stats.class("restructured");
        }
        if !feature_on("adjacent_lists") && canon::has_adjacent_same_lists(&a.blocks) {
            return Verdict::Discard("known-domain: adjacent lists of the same kind".into());
        }
        if let Some(d) = canon::diff_blocks(&a.blocks, &b.blocks, &mut vec![]) {
            return Verdict::fail(
                format!("c07|{}", d.sig),
                format!("{}\ninput:\n{}output:\n{}", d.detail, show(&case.text), show(&out)),
            );
        }
        let mut ls = (0u64, 0u64);
        if let Some(d) = canon::levels_diff(&a.blocks, &b.blocks, &mut vec![], &mut ls) {
            return Verdict::fail(
                format!("c07|{}", d.sig),
                format!("{}\ninput:\n{}output:\n{}", d.detail, show(&case.text), show(&out)),
            );
        }
        stats.class_n("scopes:well-nested", ls.0);
        stats.class_n("scopes:re-nested", ls.1);
        let nontrivial = (st.headings >= 3 && ls.1 > 0) || st.max_depth >= 2 || st.list_items >= 10;
        Verdict::Pass { nontrivial }
    }
    fn sample(&self, case: &DocCase) -> serde_json::Value {
        serde_json::json!({"text": case.text, "ext": case.ext, "door": case.door})
    }
}
