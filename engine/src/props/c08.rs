//! C08 — rename moves a note and keeps every link pointing at it.

use crate::canon::{self, CanonOpts};
use crate::drive::api::Lib;
use crate::drive::edits;
use crate::drive::lsp::{Answer, Server};
use crate::framework::*;
use crate::gen::library::{self, LibCase};
use crate::model;
use crate::pathalg;
use crate::scan::{self, Lines};
use proptest::prelude::*;
use serde::{Deserialize, Serialize};
use serde_json::{json, Value};
use std::collections::BTreeMap;

pub struct C08;

#[derive(Clone, Debug, Serialize, Deserialize)]
pub struct RenameCase {
    pub lib: LibCase,
    /// which link occurrence (index into all link occurrences that resolve to an existing note) is the rename site
    pub site: u16,
    /// 0 free name, 1 taken name, 2 free name in a sub-directory
    pub name_kind: u8,
    /// notes re-sent unchanged through didChange before the rename (indices mod number of notes)
    #[serde(default)]
    pub touch: Vec<u8>,
}

/// (owner, kind, resolved target, text) of every internal link, in order per note
fn link_table(lib: &Lib) -> BTreeMap<String, Vec<(String, String, String)>> {
    let mut out: BTreeMap<String, Vec<(String, String, String)>> = BTreeMap::new();
    for (k, text) in lib {
        let dir = pathalg::dir_of(k);
        let v = out.entry(k.clone()).or_default();
        for l in crate::props::c06::links_in_order(text) {
            if l.is_image || !scan::is_ref_url(&l.dest) {
                continue;
            }
            v.push((l.kind.clone(), pathalg::resolve(&dir, pathalg::strip_md(&l.dest)), l.text.clone()));
        }
    }
    out
}

fn content_canon(text: &str, dir: &str) -> Vec<canon::CBlock> {
    let o = CanonOpts { dir: dir.to_string(), mask_refreshable: true };
    let mut c = canon::canon(&scan::scan(text), &o);
    // destinations are judged separately: mask them
    fn mask(b: &mut canon::CBlock) {
        match b {
            canon::CBlock::Heading(t, _) | canon::CBlock::Para(t) => t.links.iter_mut().for_each(|l| {
                if l.kind != "image" {
                    l.dest = "*".into()
                }
            }),
            canon::CBlock::Quote(v) => v.iter_mut().for_each(mask),
            canon::CBlock::List { items, .. } => items.iter_mut().for_each(|it| it.iter_mut().for_each(mask)),
            canon::CBlock::Table { head, rows } => {
                head.iter_mut().chain(rows.iter_mut().flatten()).for_each(|t| {
                    t.links.iter_mut().for_each(|l| {
                        if l.kind != "image" {
                            l.dest = "*".into()
                        }
                    })
                });
            }
            _ => {}
        }
    }
    c.blocks.iter_mut().for_each(mask);
    c.blocks
}

impl Property for C08 {
    type Case = RenameCase;
    fn id(&self) -> &'static str {
        "C08"
    }
    fn rule(&self) -> String {
        "generated libraries with cross links; the rename site is any link occurrence that resolves to an existing note (position drawn inside its span from an independent scan); new name free, taken, or free in a sub-directory; oracle on the returned WorkspaceEdit applied (create / delete / full replace / insert-at-start) to an in-memory copy and re-scanned: the new key exists, the old one does not, every link that resolved to the old name now resolves to the new one from its own directory with its text preserved or equal to the note's title, every other link resolves where it did with its text, link counts are unchanged, the moved note's content and every rewritten note's content are unchanged (content fingerprint with destinations masked), notes outside the edit are untouched; a taken name is refused without edits; non-trivial = the renamed note has inbound links from at least two notes, or a self link, or both block and inline links".into()
    }
    fn assumptions(&self) -> Vec<String> {
        vec!["the rename site resolves to an existing note (dangling and external links are C12's business)".into()]
    }
    fn domain_off(&self) -> Vec<&'static str> {
        vec!["crlf", "item_first_list", "item_first_heading", "empty_item", "html_block", "refdef", "link_title"]
    }
    fn max_shrink_iters(&self) -> u32 {
        500
    }
    /// coverage-guided phase: runs per job, set by what one case costs under instrumentation
    fn fuzz_runs(&self, tier: Tier) -> u64 {
        match tier {
            Tier::Quick => 0,
            Tier::Thorough => 3000,
        }
    }
    fn cases(&self, tier: Tier) -> u64 {
        match tier {
            Tier::Quick => 2500,
            Tier::Thorough => 50_000,
        }
    }
    fn strategy(&self, features: &Features, _tier: Tier) -> BoxedStrategy<RenameCase> {
        (library::library_w(features, 5, 5, 10), 0u16..64, prop_oneof![3 => Just(0u8), 1 => Just(1u8), 1 => Just(2u8)], proptest::collection::vec(0u8..8, 0..3))
            .prop_map(|(lib, site, name_kind, touch)| RenameCase { lib, site, name_kind, touch })
            .boxed()
    }
    fn check(&self, case: &RenameCase, stats: &mut Stats) -> Verdict {
        let lib = case.lib.lib();
        if let Some(r) = model::lib_domain_discard(&lib) {
            return Verdict::Discard(r);
        }
        for text in lib.values() {
            let o = CanonOpts { dir: String::new(), mask_refreshable: false };
            if !feature_on("adjacent_lists") && canon::has_adjacent_same_lists(&canon::canon(&scan::scan(text), &o).blocks) {
                return Verdict::Discard("known-domain: adjacent lists of the same kind".into());
            }
        }
        // candidate sites: single-line links to existing notes
        let mut sites = vec![];
        for (k, text) in &lib {
            let dir = pathalg::dir_of(k);
            if !dir.is_empty() && !feature_on("rename_from_subdir") {
                continue;
            }
            for sp in crate::props::c13::link_spans(text) {
                if sp.start.0 != sp.end.0 || !scan::is_ref_url(&sp.dest) || sp.end.1 < sp.start.1 + 2 {
                    continue;
                }
                let target = pathalg::resolve(&dir, pathalg::strip_md(&sp.dest));
                if lib.contains_key(&target) {
                    sites.push((k.clone(), sp, target));
                }
            }
        }
        if sites.is_empty() {
            return Verdict::Pass { nontrivial: false };
        }
        let (owner, sp, old) = sites[(case.site as usize) % sites.len()].clone();
        // rename empties the text of links in running text (pinned by
        // rename_test::rename_inline_references): outside that finding's own search the empty text
        // is tolerated for regular links to the renamed note, everything else is still judged;
        // piped wiki links in running text come out malformed and stay excluded
        let tolerate_empty_text = !feature_on("rename_inline_link");
        if tolerate_empty_text {
            let occ = model::link_occurrences(&lib);
            if occ.iter().any(|o| o.target == old && !o.block_ref && o.kind != scan::LinkKind::Regular) {
                return Verdict::Discard("known-domain: a wiki link in running text points at the renamed note".into());
            }
        }
        if case.name_kind == 2 && !feature_on("inline_link_in_subdir") {
            let occ = model::link_occurrences(&lib);
            if occ.iter().any(|o| o.owner == old && !o.block_ref) {
                return Verdict::Discard("known-domain: the moved note holds relative links in running text".into());
            }
        }
        let new_name = match case.name_kind {
            1 => lib.keys().find(|k| **k != old).cloned().unwrap_or_else(|| old.clone()),
            2 => "sub/dir/renamed-note".to_string(),
            _ => "renamed-note".to_string(),
        };
        let _ = Lines::new("");
        let mut srv = Server::start(&lib, &case.lib.ext, false, "");
        // unchanged re-sends: the edit history must not matter
        let all_keys: Vec<String> = lib.keys().cloned().collect();
        for t in &case.touch {
            let k = &all_keys[(*t as usize) % all_keys.len()];
            srv.did_change(k, &lib[k]);
            stats.class("pre-step:didChange");
        }
        let a = srv.rename(&owner, sp.start.0 as u32, ((sp.start.1 + sp.end.1) / 2) as u32, &new_name);
        let fin = srv.finish("c08");
        let dump = |lib: &Lib, edited: Option<&Lib>| {
            let mut d = format!("rename site: note {} link {:?} -> {} ; new name {:?}\n", owner, sp.dest, old, new_name);
            for (k, v) in lib {
                d.push_str(&format!("--- {} (before)\n{}\n", k, v));
            }
            if let Some(e) = edited {
                for (k, v) in e {
                    if lib.get(k) != Some(v) {
                        d.push_str(&format!("--- {} (after)\n{}\n", k, v));
                    }
                }
            }
            d
        };
        if let Err((sig, detail)) = fin {
            return Verdict::fail(sig, format!("{}\n{}", detail, dump(&lib, None)));
        }
        let taken = lib.contains_key(&new_name);
        let result = match &a {
            Answer::Ok(v) => Some(v.clone()),
            Answer::Err(_, _) => None,
            other => return Verdict::fail("c08|no-answer", format!("{:?}\n{}", other, dump(&lib, None))),
        };
        if taken {
            stats.class("name:taken");
            let has_edits = result.as_ref().map(|v| v.get("documentChanges").is_some() || v.get("changes").is_some()).unwrap_or(false);
            if has_edits {
                return Verdict::fail("c08|taken-name-edited", format!("renaming onto the existing note {:?} returned edits: {:?}\n{}", new_name, result, dump(&lib, None)));
            }
            return Verdict::Pass { nontrivial: false };
        }
        let edit = match result {
            Some(v) if !v.is_null() && v.get("documentChanges").is_some() => v,
            other => {
                return Verdict::fail(
                    if matches!(a, Answer::Err(_, _)) { "c08|refused" } else { "c08|no-edit" },
                    format!("rename on a link to an existing note gave {:?} / {:?}\n{}", a, other, dump(&lib, None)),
                )
            }
        };
        let ops = match edits::decode(&edit) {
            Ok(o) => o,
            Err(e) => return Verdict::fail("c08|edit-shape", format!("{}\n{}", e, dump(&lib, None))),
        };
        let after = match edits::apply(&lib, &ops) {
            Ok(l) => l,
            Err(e) => return Verdict::fail("c08|edit-inapplicable", format!("{}\nops: {:?}\n{}", e, ops, dump(&lib, None))),
        };
        if after.contains_key(&old) {
            return Verdict::fail("c08|old-still-there", dump(&lib, Some(&after)));
        }
        if !after.contains_key(&new_name) {
            return Verdict::fail("c08|new-missing", dump(&lib, Some(&after)));
        }
        // link tables
        let before_links = link_table(&lib);
        let after_links = link_table(&after);
        let title = model::title_of(&lib[&old]).map(|t| scan::collapse_ws(&t));
        let mut inbound_notes = std::collections::BTreeSet::new();
        let mut kinds = std::collections::BTreeSet::new();
        for (k, bl) in &before_links {
            let k_after = if *k == old { new_name.clone() } else { k.clone() };
            let al = match after_links.get(&k_after) {
                Some(a) => a,
                None => return Verdict::fail("c08|note-lost", format!("note {} is gone\n{}", k, dump(&lib, Some(&after)))),
            };
            if al.len() != bl.len() {
                return Verdict::fail("c08|link-count", format!("note {}: {} links before, {} after\n{}", k, bl.len(), al.len(), dump(&lib, Some(&after))));
            }
            for ((kind_b, target_b, text_b), (kind_a, target_a, text_a)) in bl.iter().zip(al.iter()) {
                let want = if *target_b == old { new_name.clone() } else { target_b.clone() };
                if *target_b == old {
                    inbound_notes.insert(k.clone());
                    kinds.insert(kind_b.clone());
                }
                if *target_a != want {
                    return Verdict::fail(
                        if *target_b == old { "c08|link-not-moved" } else { "c08|other-link-retargeted" },
                        format!("note {}: link that resolved to {} now resolves to {} (expected {})\n{}", k, target_b, target_a, want, dump(&lib, Some(&after))),
                    );
                }
                let kb = if kind_b == "Autolink" { "Regular" } else { kind_b.as_str() };
                let ka = if kind_a == "Autolink" { "Regular" } else { kind_a.as_str() };
                if ka != kb {
                    return Verdict::fail("c08|link-kind", format!("note {}: link kind {} became {}\n{}", k, kind_b, kind_a, dump(&lib, Some(&after))));
                }
                if tolerate_empty_text && *target_b == old && text_a.is_empty() {
                    continue;
                }
                if kb != "Wiki" && text_a != text_b {
                    // refreshed to the title of the note it points at is fine for regular links
                    let t_title = if *target_b == old { title.clone() } else { lib.get(target_b).and_then(|t| model::title_of(t)).map(|t| scan::collapse_ws(&t)) };
                    if !(kb == "Regular" && t_title.as_deref() == Some(text_a.as_str())) {
                        return Verdict::fail(
                            "c08|link-text",
                            format!("note {}: link text {:?} became {:?} (title of target: {:?})\n{}", k, text_b, text_a, t_title, dump(&lib, Some(&after))),
                        );
                    }
                }
            }
        }
        // content of moved and rewritten notes
        for (k, text) in &lib {
            let k_after = if *k == old { new_name.clone() } else { k.clone() };
            let t_after = &after[&k_after];
            if k_after == *k && t_after == text {
                continue;
            }
            let ca = content_canon(text, &pathalg::dir_of(k));
            let cb = content_canon(t_after, &pathalg::dir_of(&k_after));
            if let Some(d) = canon::diff_blocks(&ca, &cb, &mut vec![]) {
                return Verdict::fail(
                    format!("c08|content-changed:{}", if *k == old { "moved" } else { "rewritten" }),
                    format!("note {} -> {}: {}\n{}", k, k_after, d.detail, dump(&lib, Some(&after))),
                );
            }
        }
        // notes that neither link to the old name nor are it must not be in the edit
        for (k, text) in &lib {
            if *k == old {
                continue;
            }
            let links_old = before_links[k].iter().any(|(_, t, _)| *t == old);
            if !links_old && after.get(k) != Some(text) {
                return Verdict::fail("c08|unrelated-note-edited", format!("note {} does not link to {} but was rewritten\n{}", k, old, dump(&lib, Some(&after))));
            }
        }
        stats.class(&format!("name:{}", if case.name_kind == 2 { "subdir" } else { "free" }));
        let nontrivial = inbound_notes.len() >= 2 || inbound_notes.contains(&old) || kinds.len() >= 2;
        Verdict::Pass { nontrivial }
    }
    fn sample(&self, case: &RenameCase) -> Value {
        json!({"notes": case.lib.notes, "site": case.site, "name_kind": case.name_kind, "touch": case.touch})
    }
}
