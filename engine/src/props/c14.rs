//! C14 — a file on disk, its URI and its note key always name the same note.

use crate::drive::lsp::{Answer, Server};
use crate::framework::*;
use lsp_types::Url;
use proptest::collection::vec;
use proptest::prelude::*;
use serde::{Deserialize, Serialize};
use serde_json::{json, Value};
use std::collections::BTreeSet;
use std::path::PathBuf;

pub struct C14;

#[derive(Clone, Debug, Serialize, Deserialize)]
pub struct FsCase {
    /// relative paths of the notes, without the .md extension
    pub files: Vec<String>,
    /// name of the library directory (may hold spaces / non-ASCII)
    pub base_name: String,
    pub trailing_slash: bool,
    pub ext: String,
}

pub const PLAIN_SEGS: &[&str] = &["note", "a", "b2", "index", "todo", "x_y", "n-1"];
pub const ODD_SEGS: &[&str] = &["my note", "\u{fc}ber", "\u{4e2d}\u{6587}", "v1.2", "50%", "a+b", "c#", "what?", "x.md", "tab\u{a0}le", "(p)", "it's", "a&b", "e=mc2", "caf\u{e9} au lait", "q%41", "50%25off", "%2e%2e"];

static COUNTER: std::sync::atomic::AtomicU64 = std::sync::atomic::AtomicU64::new(0);

fn title_of(i: usize) -> String {
    format!("Title number {}", i)
}

impl Property for C14 {
    type Case = FsCase;
    fn id(&self) -> &'static str {
        "C14"
    }
    fn level(&self) -> &'static str {
        "exploration"
    }
    fn rule(&self) -> String {
        "relative file names built from plain segments and odd ones (spaces, non-ASCII, '%', '+', '#', '?', dots, 'x.md.md', parentheses, quotes), nested up to three directories, under library directories whose names hold spaces or non-ASCII, with and without a trailing slash in the base path; the library is written to a real directory under /verif/work, the server is started the way the binary starts (state read from disk), uris are built with Url::from_file_path as editors do; oracle: for every loaded file a didChange through its uri changes that note (formatting through the uri shows the new text, workspace symbols show its new title exactly once and the old one not at all, the number of notes is unchanged), every uri in a response converts back with to_file_path to one of the files on disk, and a block reference by relative path from an index note reaches the file (definition goes to its uri, references of the file name the index note); non-trivial = some name needs percent-encoding or holds a '.md' or the base path inside it".into()
    }
    fn assumptions(&self) -> Vec<String> {
        vec!["file names are legal on Linux and do not contain '/' or NUL; '..' and '.' are not used as names".into()]
    }
    fn workers(&self) -> usize {
        8
    }
    fn max_shrink_iters(&self) -> u32 {
        200
    }
    fn cases(&self, tier: Tier) -> u64 {
        match tier {
            Tier::Quick => 2400,
            Tier::Thorough => 10_000,
        }
    }
    fn strategy(&self, features: &Features, _tier: Tier) -> BoxedStrategy<FsCase> {
        let odd = features.on("odd_file_names");
        let odd_base = features.on("odd_base_path");
        let md_stem = features.on("name_ends_md");
        let odd_segs: Vec<&'static str> = ODD_SEGS.iter().cloned().filter(|s| md_stem || !s.ends_with(".md")).collect();
        let seg = if odd {
            prop_oneof![2 => proptest::sample::select(PLAIN_SEGS.to_vec()), 3 => proptest::sample::select(odd_segs)].boxed()
        } else {
            proptest::sample::select(PLAIN_SEGS.to_vec()).boxed()
        };
        let path = vec(seg.prop_map(|s| s.to_string()), 1..4).prop_map(|v| v.join("/"));
        let base = if odd_base {
            prop_oneof![Just("lib".to_string()), Just("my library".to_string()), Just("b\u{fc}cher".to_string()), Just("notes.md".to_string()), Just("100%".to_string()), Just("a#b".to_string())].boxed()
        } else {
            Just("lib".to_string()).boxed()
        };
        (vec(path, 1..5), base, any::<bool>(), prop_oneof![Just(String::new()), Just(".md".to_string())])
            .prop_map(|(mut files, base_name, trailing_slash, ext)| {
                files.sort();
                files.dedup();
                // a name must not be a directory of another one
                let all = files.clone();
                files.retain(|f| !all.iter().any(|g| g.starts_with(&format!("{}/", f))));
                FsCase { files, base_name, trailing_slash, ext }
            })
            .boxed()
    }
    fn check(&self, case: &FsCase, stats: &mut Stats) -> Verdict {
        if case.files.is_empty() {
            return Verdict::Pass { nontrivial: false };
        }
        let n = COUNTER.fetch_add(1, std::sync::atomic::Ordering::SeqCst);
        let root = PathBuf::from(VERIF_ROOT.as_str()).join("work").join("fs").join(format!("c14-{}-{}", std::process::id(), n));
        let _ = std::fs::remove_dir_all(&root);
        let base = root.join(&case.base_name);
        let cleanup = |root: &PathBuf| {
            let _ = std::fs::remove_dir_all(root);
        };
        // write the library
        let mut paths: Vec<PathBuf> = vec![];
        for (i, f) in case.files.iter().enumerate() {
            let p = base.join(format!("{}.md", f));
            if let Some(d) = p.parent() {
                if std::fs::create_dir_all(d).is_err() {
                    cleanup(&root);
                    return Verdict::Discard("cannot create directory".into());
                }
            }
            if std::fs::write(&p, format!("# {}\n\nbody {}\n", title_of(i), i)).is_err() {
                cleanup(&root);
                return Verdict::Discard("cannot write file".into());
            }
            paths.push(p);
        }
        // an index note that links to every file by relative path
        let index_path = base.join("zz-index.md");
        let mut index = String::from("# Index\n\n");
        for f in &case.files {
            index.push_str(&format!("[x](<{}>)\n\n", f));
        }
        std::fs::write(&index_path, &index).expect("index");
        let all_files: BTreeSet<PathBuf> = paths.iter().cloned().chain(std::iter::once(index_path.clone())).collect();
        let base_str = format!("{}{}", base.to_string_lossy(), if case.trailing_slash { "/" } else { "" });
        let mut srv = Server::start_from_disk(&base_str, &case.ext);
        let fail = |srv: Server, root: &PathBuf, sig: &str, detail: String| {
            srv.kill();
            let _ = std::fs::remove_dir_all(root);
            Verdict::fail(sig.to_string(), format!("{}\nbase path: {:?}\nfiles: {:?}", detail, base_str, case.files))
        };
        let symbols = |srv: &mut Server| -> Result<Vec<(String, String)>, Answer> {
            let a = srv.workspace_symbols("");
            match a.value() {
                Some(Value::Array(v)) => Ok(v.iter().map(|s| (s["name"].as_str().unwrap_or("").to_string(), s["location"]["uri"].as_str().unwrap_or("").to_string())).collect()),
                _ => Err(a),
            }
        };
        let before = match symbols(&mut srv) {
            Ok(s) => s,
            Err(a) => {
                let death = srv.loop_death();
                let d = format!("workspace/symbol -> {:?} (loop death: {:?})", a, death.map(|r| r.message));
                return fail(srv, &root, "c14|no-answer", d);
            }
        };
        // every uri converts back to a file of the library
        for (name, uri) in &before {
            let ok = Url::parse(uri).ok().and_then(|u| u.to_file_path().ok()).map(|p| all_files.contains(&p)).unwrap_or(false);
            if !ok {
                return fail(srv, &root, "c14|response-uri-names-no-file", format!("symbol {:?} points at {:?}, which is none of the files on disk", name, uri));
            }
        }
        if before.len() != all_files.len() {
            return fail(srv, &root, "c14|note-count-after-load", format!("{} files on disk, {} root symbols: {:?}", all_files.len(), before.len(), before));
        }
        let mut nontrivial = false;
        for (i, p) in paths.iter().enumerate() {
            let uri = Url::from_file_path(p).expect("file uri");
            if uri.as_str().contains('%') || case.files[i].contains(".md") || case.base_name.contains(".md") {
                nontrivial = true;
            }
            let new_title = format!("Changed title {}", i);
            srv.notify(
                "textDocument/didChange",
                json!({"textDocument": {"uri": uri, "version": 2}, "contentChanges": [{"text": format!("# {}\n\nnew body\n", new_title)}]}),
            );
            let a = srv.request("textDocument/formatting", json!({"textDocument": {"uri": uri}, "options": {"tabSize": 2, "insertSpaces": true}}));
            let text = a.value().and_then(|v| v.get(0)).and_then(|e| e.get("newText")).and_then(|t| t.as_str()).map(|s| s.to_string());
            if text.as_deref().map(|t| t.contains(&new_title)) != Some(true) {
                return fail(srv, &root, "c14|edit-not-visible-through-uri", format!("after didChange({}) formatting through the same uri gives {:?} / {:?}", uri, text, a));
            }
            let after = match symbols(&mut srv) {
                Ok(s) => s,
                Err(a) => return fail(srv, &root, "c14|no-answer", format!("{:?}", a)),
            };
            // (the notes are included by the index note: their symbols read "Index • <title>")
            let ends = |n: &str, t: &str| n == t || n.ends_with(&format!(" \u{2022} {}", t));
            let with_new = after.iter().filter(|(n, _)| ends(n, &new_title)).count();
            let with_old = after.iter().filter(|(n, _)| ends(n, &title_of(i))).count();
            if with_new != 1 || with_old != 0 || after.len() != all_files.len() {
                return fail(
                    srv,
                    &root,
                    "c14|second-note-created",
                    format!("after editing {:?} through {}: {} notes (expected {}), new title listed {} time(s), old title {} time(s): {:?}", case.files[i], uri, after.len(), all_files.len(), with_new, with_old, after),
                );
            }
            for (name, u) in &after {
                let ok = Url::parse(u).ok().and_then(|u| u.to_file_path().ok()).map(|p| all_files.contains(&p)).unwrap_or(false);
                if !ok {
                    return fail(srv, &root, "c14|response-uri-names-no-file", format!("symbol {:?} points at {:?}", name, u));
                }
            }
            // the same through didSave (with the text included)
            let saved_title = format!("Saved title {}", i);
            srv.notify("textDocument/didSave", json!({"textDocument": {"uri": uri}, "text": format!("# {}\n\nsaved body\n", saved_title)}));
            let after_save = match symbols(&mut srv) {
                Ok(s) => s,
                Err(a) => return fail(srv, &root, "c14|no-answer", format!("{:?}", a)),
            };
            let with_saved = after_save.iter().filter(|(n, _)| ends(n, &saved_title)).count();
            if with_saved != 1 || after_save.len() != all_files.len() || after_save.iter().any(|(n, _)| ends(n, &new_title)) {
                return fail(
                    srv,
                    &root,
                    "c14|save-hit-another-note",
                    format!("after didSave of {:?} through {}: {} notes (expected {}), saved title listed {} time(s): {:?}", case.files[i], uri, after_save.len(), all_files.len(), with_saved, after_save),
                );
            }
            // the link from the index note reaches it: definition on line 2 + 2*i, inside the link
            let index_uri = Url::from_file_path(&index_path).unwrap();
            let d = srv.request("textDocument/definition", json!({"textDocument": {"uri": index_uri}, "position": {"line": 2 + 2 * i, "character": 2}}));
            let got = d.value().and_then(|v| v.get("uri")).and_then(|u| u.as_str()).and_then(|u| Url::parse(u).ok()).and_then(|u| u.to_file_path().ok());
            if got.as_ref() != Some(p) {
                return fail(srv, &root, "c14|link-does-not-reach-file", format!("definition on the index link to {:?} goes to {:?} ({:?}), the file is {:?}", case.files[i], got, d, p));
            }
            let r = srv.request("textDocument/references", json!({"textDocument": {"uri": uri}, "position": {"line": 0, "character": 0}, "context": {"includeDeclaration": false}}));
            let from_index = r
                .value()
                .and_then(|v| v.as_array().cloned())
                .unwrap_or_default()
                .iter()
                .any(|l| l["uri"].as_str().and_then(|u| Url::parse(u).ok()).and_then(|u| u.to_file_path().ok()).as_ref() == Some(&index_path));
            if !from_index {
                return fail(srv, &root, "c14|backlink-missing", format!("references of {:?} do not name the index note: {:?}", case.files[i], r));
            }
        }
        stats.class_n("files", case.files.len() as u64);
        let fin = srv.finish("c14");
        cleanup(&root);
        if let Err((sig, detail)) = fin {
            return Verdict::fail(sig, detail);
        }
        Verdict::Pass { nontrivial }
    }
    fn sample(&self, case: &FsCase) -> Value {
        json!({"files": case.files, "base": case.base_name, "trailing_slash": case.trailing_slash})
    }
}
