//! C19 — on-disk normalize rewrites notes in place and never leaves a damaged file.

use crate::drive::api::{self, Lib};
use crate::framework::*;
use crate::gen::doc::{self, DocCfg};
use proptest::collection::vec;
use proptest::prelude::*;
use serde::{Deserialize, Serialize};
use serde_json::{json, Value};
use std::collections::BTreeMap;
use std::os::unix::process::CommandExt;
use std::path::{Path, PathBuf};
use std::process::Command;

pub struct C19;

#[derive(Clone, Debug, Serialize, Deserialize)]
pub struct TreeCase {
    /// note files: (relative path without .md, text)
    pub notes: Vec<(String, String)>,
    /// other files: (relative path, content)
    pub others: Vec<(String, String)>,
    pub empty_dirs: Vec<String>,
    /// 0: no .iwe directory, 1: config with refs_extension "", 2: ".md", 3: library.path = "notes"
    pub config: u8,
    /// fault points: None = enumerate every byte limit up to the longest new text (small trees only)
    pub faults: Option<Vec<(u32, bool)>>,
    pub enumerate: bool,
    /// notes (paths as in `notes`) that are symbolic links to a file kept under linkstore/
    #[serde(default)]
    pub linked: Vec<String>,
}

const NAMES: &[&str] = &["a", "b", "index", "my note", "\u{fc}ber", "n1", "todo list", "x_y", "v1.2", "2024.01.03", "release-v1"];
const DIRS: &[&str] = &["", "", "d", "d/e", "my dir", "g", "v2.0"];

static COUNTER: std::sync::atomic::AtomicU64 = std::sync::atomic::AtomicU64::new(0);

pub fn iwe_binary() -> PathBuf {
    PathBuf::from(std::env::var("VERIF_IWE_BIN").unwrap_or_else(|_| format!("{}/work/target-iwe/release/iwe", VERIF_ROOT.as_str())))
}

fn snapshot(root: &Path) -> BTreeMap<String, (Option<Vec<u8>>, Option<std::time::SystemTime>)> {
    // relative path -> (content for files / None for directories, mtime)
    let mut out = BTreeMap::new();
    fn rec(root: &Path, dir: &Path, out: &mut BTreeMap<String, (Option<Vec<u8>>, Option<std::time::SystemTime>)>) {
        if let Ok(rd) = std::fs::read_dir(dir) {
            for e in rd.flatten() {
                let p = e.path();
                let rel = p.strip_prefix(root).unwrap().to_string_lossy().to_string();
                let mtime = e.metadata().ok().and_then(|m| m.modified().ok());
                if p.is_dir() {
                    out.insert(format!("{}/", rel), (None, mtime));
                    rec(root, &p, out);
                } else {
                    out.insert(rel, (std::fs::read(&p).ok(), mtime));
                }
            }
        }
    }
    rec(root, root, &mut out);
    out
}

fn materialise(root: &Path, case: &TreeCase) -> Result<(), String> {
    let lib_root = if case.config == 3 { root.join("notes") } else { root.to_path_buf() };
    std::fs::create_dir_all(&lib_root).map_err(|e| e.to_string())?;
    for (i, (p, text)) in case.notes.iter().enumerate() {
        let f = lib_root.join(format!("{}.md", p));
        std::fs::create_dir_all(f.parent().unwrap()).map_err(|e| e.to_string())?;
        if case.linked.contains(p) {
            // the note is a symbolic link; its text lives in a file that is not a note
            let store = root.join("linkstore");
            std::fs::create_dir_all(&store).map_err(|e| e.to_string())?;
            let target = store.join(format!("{}.text", i));
            std::fs::write(&target, text).map_err(|e| e.to_string())?;
            std::os::unix::fs::symlink(&target, &f).map_err(|e| e.to_string())?;
        } else {
            std::fs::write(&f, text).map_err(|e| e.to_string())?;
        }
    }
    for (p, c) in &case.others {
        let f = root.join(p);
        std::fs::create_dir_all(f.parent().unwrap()).map_err(|e| e.to_string())?;
        std::fs::write(&f, c).map_err(|e| e.to_string())?;
    }
    for d in &case.empty_dirs {
        std::fs::create_dir_all(root.join(d)).map_err(|e| e.to_string())?;
    }
    if case.config > 0 {
        std::fs::create_dir_all(root.join(".iwe")).map_err(|e| e.to_string())?;
        let ext = if case.config == 2 { ".md" } else { "" };
        let path = if case.config == 3 { "notes" } else { "" };
        let toml = format!("[markdown]\nrefs_extension = \"{}\"\n\n[library]\npath = \"{}\"\n\n[models]\n\n[actions]\n", ext, path);
        std::fs::write(root.join(".iwe/config.toml"), toml).map_err(|e| e.to_string())?;
    }
    Ok(())
}

/// what the in-memory export defines for every note of the tree
fn expected_notes(case: &TreeCase) -> Lib {
    let lib: Lib = case.notes.iter().cloned().collect();
    api::format_library(&lib, if case.config == 2 { ".md" } else { "" })
}

fn run_normalize(root: &Path, limit: Option<(u32, bool)>) -> std::io::Result<std::process::Output> {
    let mut cmd = Command::new(iwe_binary());
    cmd.arg("normalize").current_dir(root).env_remove("IWE_DEBUG").env("RAYON_NUM_THREADS", "2");
    if let Some((k, ignore)) = limit {
        unsafe {
            cmd.pre_exec(move || {
                if ignore {
                    libc::signal(libc::SIGXFSZ, libc::SIG_IGN);
                }
                let lim = libc::rlimit { rlim_cur: k as libc::rlim_t, rlim_max: k as libc::rlim_t };
                if libc::setrlimit(libc::RLIMIT_FSIZE, &lim) != 0 {
                    return Err(std::io::Error::last_os_error());
                }
                Ok(())
            });
        }
    }
    cmd.output()
}

impl Property for C19 {
    type Case = TreeCase;
    fn id(&self) -> &'static str {
        "C19"
    }
    fn level(&self) -> &'static str {
        "fault_enumeration"
    }
    fn rule(&self) -> String {
        "generated directory trees (notes in nested directories with spaces and non-ASCII in names, non-note files, empty directories, notes that are symbolic links to a file kept elsewhere, .iwe/config.toml with refs_extension and library.path variants) are materialised under /verif/work/fs and the built `iwe normalize` is run there; fault cases add (k, disposition): RLIMIT_FSIZE = k set in the child before exec with SIGXFSZ at its default (the process dies at byte k of the first file longer than k) or ignored (the write fails with EFBIG and the error path runs); for small trees every k from 0 to the longest new text is enumerated under both dispositions; oracle without fault: every note file holds exactly the text the in-memory export (Graph::import + export over the harness's own directory walk) defines, every other file and directory is byte-, name- and mtime-identical, nothing is created or deleted; with a fault: every note file equals its complete old or its complete new text; non-trivial = a nested directory and a non-note file, and for fault cases a limit strictly inside some note's new length".into()
    }
    fn assumptions(&self) -> Vec<String> {
        vec![
            "crash points are byte offsets of file writes (RLIMIT_FSIZE); kills inside rename/metadata calls and real power loss (page cache) are not modelled".into(),
            "a file the tool leaves behind under a name that is not a note (*.md) after being killed is not counted as a damaged note".into(),
        ]
    }
    fn workers(&self) -> usize {
        8
    }
    fn max_shrink_iters(&self) -> u32 {
        150
    }
    fn cases(&self, tier: Tier) -> u64 {
        match tier {
            Tier::Quick => 160,
            Tier::Thorough => 3000,
        }
    }
    fn strategy(&self, features: &Features, _tier: Tier) -> BoxedStrategy<TreeCase> {
        let mut cfg = DocCfg::new(features);
        cfg.max_blocks = 4;
        cfg.depth = 1;
        cfg.title_p = 0.7;
        cfg.pool.internal = vec!["a".into(), "d/b".into(), "index".into()];
        let note = (proptest::sample::select(DIRS.to_vec()), proptest::sample::select(NAMES.to_vec()), doc::text(&cfg)).prop_map(|(d, n, t)| {
            (if d.is_empty() { n.to_string() } else { format!("{}/{}", d, n) }, t)
        });
        let other = (proptest::sample::select(DIRS.to_vec()), proptest::sample::select(vec!["readme.txt", "pic.png", "data.json", "notes.md.bak", "Makefile"]), "[ -~]{0,40}")
            .prop_map(|(d, n, c)| (if d.is_empty() { n.to_string() } else { format!("{}/{}", d, n) }, c));
        (
            vec(note, 1..5),
            vec(other, 0..3),
            vec(proptest::sample::select(vec!["empty", "d/empty dir", "x/y/z"]).prop_map(|s| s.to_string()), 0..2),
            0u8..4,
            proptest::option::weighted(0.7, vec((0u32..400, any::<bool>()), 1..4)),
            proptest::bool::weighted(0.1),
            vec(proptest::bool::weighted(0.15), 5),
        )
            .prop_map(|(mut notes, mut others, empty_dirs, config, faults, enumerate, link_mask)| {
                notes.sort();
                notes.dedup_by(|a, b| a.0 == b.0);
                others.sort();
                others.dedup_by(|a, b| a.0 == b.0);
                // a non-note file must not collide with a note file or directory
                let note_paths: Vec<String> = notes.iter().map(|(p, _)| format!("{}.md", p)).collect();
                others.retain(|(p, _)| !note_paths.contains(p));
                let linked: Vec<String> = notes.iter().enumerate().filter(|(i, _)| link_mask.get(*i).copied().unwrap_or(false)).map(|(_, (p, _))| p.clone()).collect();
                TreeCase { notes, others, empty_dirs, config, faults, enumerate, linked }
            })
            .boxed()
    }
    fn check(&self, case: &TreeCase, stats: &mut Stats) -> Verdict {
        if !iwe_binary().exists() {
            return Verdict::Discard(format!("iwe binary not built at {}", iwe_binary().display()));
        }
        for (_, t) in &case.notes {
            if let Some(r) = crate::canon::crash_domain_discard(&crate::scan::scan(t)) {
                return Verdict::Discard(r);
            }
        }
        let n = COUNTER.fetch_add(1, std::sync::atomic::Ordering::SeqCst);
        let root = PathBuf::from(VERIF_ROOT.as_str()).join("work").join("fs").join(format!("c19-{}-{}", std::process::id(), n));
        let lib_prefix = if case.config == 3 { "notes/" } else { "" };
        let expected = expected_notes(case);
        let old: Lib = case.notes.iter().cloned().collect();
        let describe = |case: &TreeCase| format!("notes: {:?}\nothers: {:?}\nempty dirs: {:?}\nconfig: {}", case.notes.iter().map(|(p, t)| (p.clone(), t.len())).collect::<Vec<_>>(), case.others, case.empty_dirs, case.config);
        // fault list
        let max_new = expected.values().map(|t| t.len()).max().unwrap_or(0) as u32;
        let total_size: usize = case.notes.iter().map(|(_, t)| t.len()).sum();
        let faults: Vec<Option<(u32, bool)>> = if case.enumerate && total_size < 400 {
            stats.class("fault:enumerated-tree");
            let mut v: Vec<Option<(u32, bool)>> = vec![None];
            for k in 0..=max_new {
                v.push(Some((k, false)));
                v.push(Some((k, true)));
            }
            v
        } else {
            let mut v = vec![None];
            if let Some(f) = &case.faults {
                v.extend(f.iter().map(|(k, i)| Some((*k % (max_new + 2), *i))));
            }
            v
        };
        let mut nontrivial = false;
        for fault in faults {
            let _ = std::fs::remove_dir_all(&root);
            if let Err(e) = materialise(&root, case) {
                let _ = std::fs::remove_dir_all(&root);
                return Verdict::Discard(format!("cannot materialise the tree: {}", e));
            }
            // settle mtimes: make the snapshot's mtimes old enough to notice a rewrite
            let before = snapshot(&root);
            let out = match run_normalize(&root, fault) {
                Ok(o) => o,
                Err(e) => {
                    let _ = std::fs::remove_dir_all(&root);
                    return Verdict::Discard(format!("cannot run iwe: {}", e));
                }
            };
            let after = snapshot(&root);
            stats.class(match fault {
                None => "run:no-fault",
                Some((_, false)) => "run:killed-at-limit",
                Some((_, true)) => "run:write-error-at-limit",
            });
            let fail = |sig: &str, detail: String| {
                let _ = std::fs::remove_dir_all(&root);
                Verdict::fail(sig.to_string(), format!("{}\nfault: {:?}; exit: {:?}\n{}\nstderr: {}", detail, fault, out.status, describe(case), String::from_utf8_lossy(&out.stderr).chars().take(300).collect::<String>()))
            };
            match fault {
                None => {
                    if !out.status.success() {
                        return fail("c19|normalize-failed", "iwe normalize exited with an error on a plain tree".into());
                    }
                    // same set of paths
                    let kb: Vec<&String> = before.keys().collect();
                    let ka: Vec<&String> = after.keys().collect();
                    if kb != ka {
                        let created: Vec<_> = after.keys().filter(|k| !before.contains_key(*k)).collect();
                        let deleted: Vec<_> = before.keys().filter(|k| !after.contains_key(*k)).collect();
                        return fail("c19|created-or-deleted", format!("created {:?} deleted {:?}", created, deleted));
                    }
                    for (p, (content, mtime)) in &before {
                        let (c2, m2) = &after[p];
                        let note_key = p.strip_prefix(lib_prefix).and_then(|r| r.strip_suffix(".md")).filter(|k| expected.contains_key(*k) && (lib_prefix.is_empty() || p.starts_with(lib_prefix)));
                        match note_key {
                            Some(k) => {
                                let want = expected[k].as_bytes();
                                if c2.as_deref() != Some(want) {
                                    return fail(
                                        "c19|note-content",
                                        format!("note {} holds\n{}\nthe in-memory export defines\n{}", p, String::from_utf8_lossy(c2.as_deref().unwrap_or(b"<missing>")), expected[k]),
                                    );
                                }
                            }
                            // (the file a linked note points at is the note's text kept elsewhere:
                            // whether the tool writes through the link or replaces it is not judged)
                            None if p.starts_with("linkstore/") => {}
                            None => {
                                if c2 != content {
                                    return fail("c19|other-file-changed", format!("{} is not a note of the library but its content changed", p));
                                }
                                if content.is_some() && m2 != mtime {
                                    return fail("c19|other-file-touched", format!("{} is not a note of the library but its modification time changed", p));
                                }
                            }
                        }
                    }
                    if case.notes.iter().any(|(p, _)| p.contains('/')) && !case.others.is_empty() {
                        nontrivial = true;
                    }
                }
                Some((k, _)) => {
                    // every note file: complete old or complete new text
                    for (key, old_text) in &old {
                        let p = format!("{}{}.md", lib_prefix, key);
                        let got = after.get(&p).and_then(|(c, _)| c.clone());
                        let ok = match &got {
                            Some(bytes) => bytes == old_text.as_bytes() || bytes == expected[key].as_bytes(),
                            None => false,
                        };
                        if !ok {
                            let kind = match &got {
                                None => "missing",
                                Some(b) if b.is_empty() => "empty",
                                Some(b) if expected[key].as_bytes().starts_with(b) => "truncated",
                                _ => "other",
                            };
                            return fail(
                                &format!("c19|torn-note:{}", kind),
                                format!(
                                    "with the file size limit {} the note {} is left {} ({} bytes; old text {} bytes, new text {} bytes)",
                                    k, p, kind, got.as_ref().map(|b| b.len()).unwrap_or(0), old_text.len(), expected[key].len()
                                ),
                            );
                        }
                    }
                    // non-note files untouched
                    for (p, (content, _)) in &before {
                        if content.is_some() && !p.ends_with(".md") && !p.starts_with("linkstore/") {
                            if after.get(p).map(|(c, _)| c) != Some(content) {
                                return fail("c19|other-file-changed", format!("{} changed during a failed run", p));
                            }
                        }
                    }
                    if (k as usize) < expected.values().map(|t| t.len()).max().unwrap_or(0) && k > 0 {
                        nontrivial = true;
                    }
                }
            }
        }
        let _ = std::fs::remove_dir_all(&root);
        Verdict::Pass { nontrivial }
    }
    fn sample(&self, case: &TreeCase) -> Value {
        json!({"notes": case.notes.iter().map(|(p, t)| (p.clone(), t.chars().take(80).collect::<String>())).collect::<Vec<_>>(), "others": case.others, "empty_dirs": case.empty_dirs, "config": case.config, "faults": case.faults, "enumerate": case.enumerate, "linked": case.linked})
    }
}
