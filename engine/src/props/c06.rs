//! C06 — formatting refreshes link titles and never retargets or rewrites a link.

use crate::drive::api;
use crate::framework::*;
use crate::gen::library::{self, LibCase};
use crate::pathalg;
use crate::scan::*;
use proptest::prelude::*;

pub struct C06;

#[derive(Debug, Clone)]
pub struct L {
    pub kind: String,
    pub dest: String,
    pub text: String,
    pub is_image: bool,
}

pub fn links_in_order(text: &str) -> Vec<L> {
    let s = scan(text);
    let mut out = vec![];
    walk(&s.blocks, &mut |b, _| {
        let mut ls = vec![];
        links_of(&b.inlines, &mut ls);
        for l in ls {
            match l {
                SInline::Link { kind, dest, children, .. } => out.push(L {
                    kind: format!("{:?}", kind),
                    dest: dest.clone(),
                    text: collapse_ws(&plain_text(children)),
                    is_image: false,
                }),
                SInline::Image { dest, children, .. } => out.push(L {
                    kind: "Image".into(),
                    dest: dest.clone(),
                    text: collapse_ws(&plain_text(children)),
                    is_image: true,
                }),
                _ => {}
            }
        }
    });
    out
}

fn dump(lib: &api::Lib, out: &api::Lib) -> String {
    let mut d = String::new();
    for (k, v) in lib {
        d.push_str(&format!("--- {} (input)\n{}\n--- {} (output)\n{}\n", k, v, k, out.get(k).cloned().unwrap_or_default()));
    }
    d
}

impl Property for C06 {
    type Case = LibCase;
    fn id(&self) -> &'static str {
        "C06"
    }
    fn rule(&self) -> String {
        "libraries with cross links (cycles, self links, same file name in two directories, targets with and without a leading heading, headings with inline markup, missing targets, external URLs, images, wiki and piped wiki links) x refs_extension in {\"\", \".md\"}; oracle: links of input and exported output aligned by order per note: kind unchanged, destination resolves (own path algebra, from the linking note's directory) to the same key and carries the configured extension, text equals the plain text of the first heading of the note it resolves to when it is a regular link to an existing note that starts with a heading and is unchanged otherwise; the exported library exported again is byte-identical; non-trivial = at least one link whose text must change and one that must not".into()
    }
    fn assumptions(&self) -> Vec<String> {
        vec!["the title is the heading's plain text as an independent scan of the target note gives it".into()]
    }
    fn domain_off(&self) -> Vec<&'static str> {
        vec!["crlf", "item_first_list", "item_first_heading", "empty_item", "html_block"]
    }
    fn cases(&self, tier: Tier) -> u64 {
        match tier {
            Tier::Quick => 4000,
            Tier::Thorough => 80_000,
        }
    }
    fn strategy(&self, features: &Features, _tier: Tier) -> BoxedStrategy<LibCase> {
        library::library(features, 6, 5)
    }
    fn check(&self, case: &LibCase, stats: &mut Stats) -> Verdict {
        let lib = case.lib();
        if let Some(r) = crate::model::lib_domain_discard(&lib) {
            return Verdict::Discard(r);
        }
        for text in lib.values() {
            let s = scan(text);
            if !feature_on("adjacent_lists") {
                let o = crate::canon::CanonOpts { dir: String::new(), mask_refreshable: false };
                if crate::canon::has_adjacent_same_lists(&crate::canon::canon(&s, &o).blocks) {
                    return Verdict::Discard("known-domain: adjacent lists of the same kind".into());
                }
            }
        }
        let out = api::format_library(&lib, &case.ext);
        let mut must_change = 0;
        let mut must_keep = 0;
        for (k, text) in &lib {
            let dir = pathalg::dir_of(k);
            let li = links_in_order(text);
            let lo = links_in_order(out.get(k).map(|s| s.as_str()).unwrap_or(""));
            if li.len() != lo.len() {
                return Verdict::fail(
                    "c06|link-count",
                    format!("note {}: {} links in, {} links out\n{}", k, li.len(), lo.len(), dump(&lib, &out)),
                );
            }
            for (a, b) in li.iter().zip(lo.iter()) {
                let internal = is_ref_url(&a.dest) && !a.is_image;
                let kind_a = if a.kind == "Autolink" { "Regular" } else { a.kind.as_str() };
                let kind_b = if b.kind == "Autolink" { "Regular" } else { b.kind.as_str() };
                if kind_a != kind_b {
                    return Verdict::fail(
                        format!("c06|kind:{}>{}", a.kind, b.kind),
                        format!("note {}: link {:?} came out as {:?}\n{}", k, a, b, dump(&lib, &out)),
                    );
                }
                if internal {
                    let ta = pathalg::resolve(&dir, pathalg::strip_md(&a.dest));
                    let tb = pathalg::resolve(&dir, pathalg::strip_md(&b.dest));
                    if ta != tb {
                        return Verdict::fail(
                            format!("c06|retargeted:{}", kind_a),
                            format!("note {}: link {:?} (-> {}) came out as {:?} (-> {})\n{}", k, a, ta, b, tb, dump(&lib, &out)),
                        );
                    }
                    if kind_a == "Regular" {
                        let has = b.dest.ends_with(".md");
                        if has != (case.ext == ".md") || b.dest.ends_with(".md.md") {
                            return Verdict::fail(
                                "c06|extension",
                                format!("note {}: refs_extension={:?} but link {:?} came out as {:?}\n{}", k, case.ext, a, b, dump(&lib, &out)),
                            );
                        }
                    }
                    // text
                    let title = lib.get(&ta).and_then(|t| crate::model::title_of(t)).map(|t| collapse_ws(&t));
                    let expected = match (&title, a.kind.as_str()) {
                        (Some(t), "Regular") => {
                            if *t != a.text {
                                must_change += 1;
                            }
                            t.clone()
                        }
                        _ => {
                            must_keep += 1;
                            a.text.clone()
                        }
                    };
                    // the text of a bare wiki link is its destination: nothing separate to compare
                    if a.kind != "Wiki" && b.text != expected {
                        return Verdict::fail(
                            format!("c06|text:{}:{}", kind_a, if title.is_some() { "title" } else { "keep" }),
                            format!("note {}: link {:?} -> {} came out with text {:?}, expected {:?}\n{}", k, a, ta, b.text, expected, dump(&lib, &out)),
                        );
                    }
                } else {
                    must_keep += 1;
                    if a.dest != b.dest || a.text != b.text {
                        return Verdict::fail(
                            format!("c06|external-changed:{}", kind_a),
                            format!("note {}: {:?} came out as {:?}\n{}", k, a, b, dump(&lib, &out)),
                        );
                    }
                }
            }
        }
        // library-level fixpoint
        let out2 = api::format_library(&out, &case.ext);
        if out2 != out {
            let k = out.keys().find(|k| out.get(*k) != out2.get(*k)).cloned().unwrap_or_default();
            return Verdict::fail(
                "c06|second-pass",
                format!("formatting the formatted library again changed note {}:\n{}\n--- second pass\n{}", k, dump(&lib, &out), out2.get(&k).cloned().unwrap_or_default()),
            );
        }
        stats.class_n("links:must-change", must_change);
        stats.class_n("links:must-keep", must_keep);
        stats.class(&format!("ext:{:?}", case.ext));
        Verdict::Pass { nontrivial: must_change >= 1 && must_keep >= 1 }
    }
    fn sample(&self, case: &LibCase) -> serde_json::Value {
        serde_json::json!({"notes": case.notes, "ext": case.ext})
    }
}
