//! C02 — normalisation is a fixpoint.

use super::common::*;
use crate::canon::{self, CanonOpts};
use crate::drive::api;
use crate::framework::*;
use crate::scan;
use proptest::prelude::*;

pub struct C02;

pub fn format(case: &DocCase, text: &str) -> String {
    match case.door {
        0 => api::format_single("doc", text, &case.ext),
        1 => {
            let mut lib = api::Lib::new();
            lib.insert("doc".into(), text.to_string());
            api::format_library(&lib, &case.ext).remove("doc").unwrap_or_default()
        }
        2 => {
            let mut lib = api::Lib::new();
            lib.insert("doc".into(), case.prev.clone());
            api::format_via_update(&lib, "doc", text, &case.ext)
        }
        _ => {
            // the language server: textDocument/formatting on a served note, edit applied
            let mut lib = api::Lib::new();
            lib.insert("doc".into(), text.to_string());
            let mut srv = crate::drive::lsp::Server::start(&lib, &case.ext, false, "");
            let answer = srv.formatting("doc");
            let out = match answer.value() {
                Some(v) => match v.get(0).and_then(|e| e.get("newText")).and_then(|t| t.as_str()) {
                    Some(t) => t.to_string(),
                    // no edit: the note is already in its normal form
                    None => text.to_string(),
                },
                None => {
                    srv.kill();
                    panic!("textDocument/formatting was not answered with a result: {:?}", answer);
                }
            };
            let _ = srv.shutdown();
            out
        }
    }
}

impl Property for C02 {
    type Case = DocCase;
    fn id(&self) -> &'static str {
        "C02"
    }
    fn rule(&self) -> String {
        "documents generated from a block/inline grammar (G-DOC) with randomised presentation, x both refs_extension settings x four doors (from_markdown/to_markdown, import/export, update_key over an older version, textDocument/formatting of the served note); oracle f(f(x)) == f(x) byte-for-byte and f(f(f(x))) == f(f(x)); non-trivial = f(x) != x and the input scans to >= 3 blocks; distinct = SHA-256 of the case".into()
    }
    fn assumptions(&self) -> Vec<String> {
        vec!["pure metamorphic oracle: no parser involved in the verdict; the independent scanner is used only to classify a failure".into()]
    }
    fn cases(&self, tier: Tier) -> u64 {
        match tier {
            Tier::Quick => 8000,
            Tier::Thorough => 200_000,
        }
    }
    fn domain_off(&self) -> Vec<&'static str> {
        // restructurings the properties allow (C07 quantifier): not in this check's domain
        vec!["item_first_list", "item_first_heading", "empty_item"]
    }
    fn strategy(&self, features: &Features, _tier: Tier) -> BoxedStrategy<DocCase> {
        doc_case(features, 7, 4)
    }
    fn check(&self, case: &DocCase, stats: &mut Stats) -> Verdict {
        let y1 = format(case, &case.text);
        let y2 = format(case, &y1);
        let s_in = scan::scan(&case.text);
        if let Some(r) = canon::domain_discard(&s_in) {
            return Verdict::Discard(r);
        }
        if case.door == 2 {
            if let Some(r) = canon::domain_discard(&scan::scan(&case.prev)) {
                return Verdict::Discard(r);
            }
        }
        if !feature_on("adjacent_lists") {
            let o = CanonOpts { dir: String::new(), mask_refreshable: false };
            if canon::has_adjacent_same_lists(&canon::canon(&s_in, &o).blocks) {
                return Verdict::Discard("known-domain: adjacent lists of the same kind".into());
            }
        }
        let st = canon::scan_stats(&s_in, &case.text);
        for k in &st.kinds {
            stats.class(&format!("has:{}", k));
        }
        stats.class(&format!("door:{}", case.door));
        if y2 != y1 {
            let o = CanonOpts { dir: String::new(), mask_refreshable: false };
            let c1 = canon::canon(&scan::scan(&y1), &o);
            let c2 = canon::canon(&scan::scan(&y2), &o);
            let sig = match canon::diff(&c1, &c2) {
                Some(d) => format!("c02|{}", d.sig),
                None => "c02|presentation-only".to_string(),
            };
            let y3 = format(case, &y2);
            let conv = if y3 == y2 { "converges after two passes" } else { "still changing on the third pass" };
            return Verdict::fail(
                sig,
                format!("{}\ninput:\n{}first pass:\n{}second pass:\n{}", conv, show(&case.text), show(&y1), show(&y2)),
            );
        }
        Verdict::Pass { nontrivial: y1 != case.text && st.blocks >= 3 }
    }
    fn sample(&self, case: &DocCase) -> serde_json::Value {
        serde_json::json!({"text": case.text, "ext": case.ext, "door": case.door, "prev": case.prev})
    }
}
