//! C01 — normalisation never loses or invents note content.

use super::common::*;
use crate::canon::{self, CanonOpts};
use crate::framework::*;
use crate::scan;
use proptest::prelude::*;

pub struct C01;

impl Property for C01 {
    type Case = DocCase;
    fn id(&self) -> &'static str {
        "C01"
    }
    fn rule(&self) -> String {
        "documents generated from a block/inline grammar with unique word tokens and randomised presentation, x both refs_extension settings x four doors (from_markdown/to_markdown, import/export, update_key over an older version, textDocument/formatting of the served note); oracle: content fingerprint (block kinds and nesting, words per block, code bodies and info strings, link/image kinds and resolved destinations, list item counts, table shape and cells, inline style spans, front matter) of an independent pulldown-cmark scan of the input equals that of the output, under the tolerances of DESIGN.md 4.3; non-trivial = >= 3 blocks of >= 2 kinds and at least one of container nesting, table, code, multi-line paragraph, link".into()
    }
    fn assumptions(&self) -> Vec<String> {
        vec![
            "pulldown-cmark 0.13 with iwe's option set defines what the input means".into(),
            "raw HTML blocks, link title attributes and reference-definition syntax may be dropped; heading levels are judged by C07".into(),
        ]
    }
    fn cases(&self, tier: Tier) -> u64 {
        match tier {
            Tier::Quick => 8000,
            Tier::Thorough => 200_000,
        }
    }
    fn domain_off(&self) -> Vec<&'static str> {
        // restructurings the properties allow (C07 quantifier): not in this check's domain
        vec!["item_first_list", "item_first_heading", "empty_item"]
    }
    fn strategy(&self, features: &Features, _tier: Tier) -> BoxedStrategy<DocCase> {
        doc_case(features, 7, 4)
    }
    fn check(&self, case: &DocCase, stats: &mut Stats) -> Verdict {
        let out = super::c02::format(case, &case.text);
        let o = CanonOpts { dir: String::new(), mask_refreshable: true };
        let s_in = scan::scan(&case.text);
        if let Some(r) = canon::domain_discard(&s_in) {
            return Verdict::Discard(r);
        }
        if case.door == 2 {
            if let Some(r) = canon::domain_discard(&scan::scan(&case.prev)) {
                return Verdict::Discard(r);
            }
        }
        let s_out = scan::scan(&out);
        let st = canon::scan_stats(&s_in, &case.text);
        for k in &st.kinds {
            stats.class(&format!("has:{}", k));
        }
        stats.class(&format!("door:{}", case.door));
        stats.class(&format!("depth:{}", st.max_depth.min(4)));
        let a = canon::canon(&s_in, &o);
        let b = canon::canon(&s_out, &o);
        if !feature_on("adjacent_lists") && canon::has_adjacent_same_lists(&a.blocks) {
            return Verdict::Discard("known-domain: adjacent lists of the same kind".into());
        }
        if let Some(d) = canon::diff(&a, &b) {
            return Verdict::fail(
                format!("c01|{}", d.sig),
                format!("{}\ninput:\n{}output:\n{}", d.detail, show(&case.text), show(&out)),
            );
        }
        let nontrivial = st.blocks >= 3
            && st.kinds.len() >= 2
            && (st.max_depth >= 1 || st.kinds.contains("table") || st.kinds.contains("code") || st.multiline_para || st.links > 0);
        Verdict::Pass { nontrivial }
    }
    fn sample(&self, case: &DocCase) -> serde_json::Value {
        serde_json::json!({"text": case.text, "ext": case.ext, "door": case.door, "prev": case.prev})
    }
}
