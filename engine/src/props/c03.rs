//! C03 — no document can crash, hang or kill server or CLI.

use super::common::*;
use crate::drive::api;
use crate::framework::*;
use liwe::database::Database;
use liwe::graph::GraphContext;
use liwe::model::Key;
use proptest::prelude::*;

pub struct C03;

pub fn drive_library_api(text: &str, ext: &str) {
    let key = Key::from_file_name("doc");
    let mut lib = api::Lib::new();
    lib.insert("doc".into(), text.to_string());
    lib.insert("other".into(), "# other\n\n[doc](doc)\n".to_string());
    let out = api::format_library(&lib, ext);
    let _ = out;
    let mut db = Database::new(api::to_state(&lib), true, api::opts(ext));
    let _ = db.global_search("");
    let _ = db.global_search("w1");
    let _ = db.graph().paths();
    let nlines = text.lines().count();
    for line in 0..nlines + 2 {
        let _ = db.graph().get_node_id_at(&key, line);
    }
    // update over the previous version, then again with the same text
    db.update_document(key.clone(), format!("{}\n\nmore\n", text));
    db.update_document(key.clone(), text.to_string());
    let _ = db.graph().to_markdown(&key);
    let _ = db.global_search("more");
    let _ = db.graph().squash(&key, 2);
}

impl Property for C03 {
    type Case = DocCase;
    fn id(&self) -> &'static str {
        "C03"
    }
    fn rule(&self) -> String {
        "structured documents with the hostile alphabet and all nestings on; each is loaded, formatted, searched, path-listed, probed at every line and re-updated; oracle: no panic (hook), no abort (process status), termination (watchdog); non-trivial = scans to >= 2 blocks with >= 1 container".into()
    }
    fn assumptions(&self) -> Vec<String> {
        vec!["release build without overflow checks, as shipped".into()]
    }
    fn cases(&self, tier: Tier) -> u64 {
        match tier {
            Tier::Quick => 5000,
            Tier::Thorough => 100_000,
        }
    }
    fn hang_is_violation(&self) -> bool {
        true
    }
    fn strategy(&self, features: &Features, _tier: Tier) -> BoxedStrategy<DocCase> {
        let mut cfg = crate::gen::doc::DocCfg::new(features);
        cfg.hostile = true;
        cfg.max_blocks = 8;
        (crate::gen::doc::text(&cfg), prop_oneof![Just(String::new()), Just(".md".to_string())])
            .prop_map(|(text, ext)| DocCase { text, ext, door: 0, prev: String::new() })
            .boxed()
    }
    fn check(&self, case: &DocCase, stats: &mut Stats) -> Verdict {
        drive_library_api(&case.text, &case.ext);
        let s = crate::scan::scan(&case.text);
        let st = crate::canon::scan_stats(&s, &case.text);
        for k in &st.kinds {
            stats.class(&format!("has:{}", k));
        }
        Verdict::Pass { nontrivial: st.blocks >= 2 && st.max_depth >= 1 }
    }
    fn sample(&self, case: &DocCase) -> serde_json::Value {
        serde_json::json!({"text": case.text, "ext": case.ext})
    }
}
