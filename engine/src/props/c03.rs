//! C03 — no document can crash, hang or kill server or CLI.

use crate::drive::api;
use crate::drive::lsp::{Answer, Server};
use crate::framework::*;
use liwe::database::Database;
use liwe::graph::GraphContext;
use liwe::model::Key;
use proptest::prelude::*;
use serde::{Deserialize, Serialize};
use serde_json::Value;

pub struct C03;

#[derive(Clone, Debug, Serialize, Deserialize)]
pub struct C03Case {
    /// note text (ignored when `scale` is set)
    pub text: String,
    /// scale family member: (kind, size)
    pub scale: Option<(u8, u32)>,
    pub ext: String,
}

/// Byte-level fuzzing: the bytes are the note (lossy UTF-8); the first byte picks the extension
/// setting and whether line endings are turned into CRLF.
pub fn raw_case(data: &[u8]) -> C03Case {
    let (flag, body) = match data.split_first() {
        Some((f, b)) => (*f, b),
        None => (0, data),
    };
    let mut text = String::from_utf8_lossy(body).to_string();
    if flag & 2 != 0 {
        text = text.replace('\n', "\r\n");
    }
    C03Case { text, scale: None, ext: if flag & 1 != 0 { ".md".into() } else { String::new() } }
}

pub fn scale_text(kind: u8, n: u32) -> String {
    let n = n as usize;
    let mut s = String::new();
    match kind % 13 {
        0 => (0..n).for_each(|i| s.push_str(&format!("para{}\n\n", i))),
        1 => (0..n).for_each(|i| s.push_str(&format!("- item{}\n", i))),
        2 => (0..n).for_each(|i| s.push_str(&format!("{}- deep{}\n", "  ".repeat(i), i))),
        3 => {
            s.push_str(&"> ".repeat(n));
            s.push_str("bottom\n");
        }
        4 => {
            (0..n).for_each(|i| s.push_str(&format!("w{} ", i)));
            s.push('\n');
        }
        5 => {
            let cols = n.max(1);
            s.push_str(&format!("|{}\n", " h |".repeat(cols)));
            s.push_str(&format!("|{}\n", " --- |".repeat(cols)));
            for _ in 0..3 {
                s.push_str(&format!("|{}\n", " c |".repeat(cols)));
            }
        }
        6 => (0..n).for_each(|i| s.push_str(&format!("# head{}\n\n", i))),
        7 => (0..n).for_each(|i| s.push_str(&format!("{} head{}\n\ntext{}\n\n", "#".repeat(1 + i % 6), i, i))),
        8 => {
            (0..n).for_each(|i| s.push_str(&format!("[l{}](other) ", i)));
            s.push('\n');
        }
        12 => (0..n).for_each(|i| s.push_str(&format!("{}. item{}\n", i + 1, i))),
        10 => {
            // one long heading of non-ASCII words of mixed byte widths
            s.push_str("# ");
            (0..n).for_each(|i| s.push_str(["\u{436}\u{44b} ", "\u{4e2d}\u{6587}x ", "\u{e9}t\u{e9} ", "\u{1f600}k "][i % 4]));
            s.push_str("\n\ntext\n");
        }
        11 => {
            // a chain of nested headings whose joined path text grows past any small buffer
            for i in 0..n.min(400) {
                s.push_str(&format!("{} \u{436}\u{435}\u{43b}{} \u{4e2d}{} \u{e9}{}\n\npara{}\n\n", "#".repeat(1 + i % 6), "\u{44b}".repeat(i % 7), i, "\u{1f600}".repeat(i % 3), i));
            }
        }
        _ => {
            s.push_str(&"*_".repeat(n));
            s.push('x');
            s.push_str(&"_*".repeat(n));
            s.push('\n');
        }
    }
    s
}

pub fn drive_library_api(text: &str, ext: &str) {
    let key = Key::from_file_name("doc");
    let mut lib = api::Lib::new();
    lib.insert("doc".into(), text.to_string());
    lib.insert("other".into(), "# other\n\n[doc](doc)\n".to_string());
    let _ = api::format_library(&lib, ext);
    let mut db = Database::new(api::to_state(&lib), true, api::opts(ext));
    let _ = db.global_search("");
    let _ = db.global_search("w1");
    let _ = db.graph().paths();
    let nlines = text.lines().count();
    let step = (nlines / 200).max(1);
    let mut line = 0;
    while line < nlines + 2 {
        let _ = db.graph().get_node_id_at(&key, line);
        line += step;
    }
    // update over the previous version, then again with the same text
    db.update_document(key.clone(), format!("{}\n\nmore\n", text));
    db.update_document(key.clone(), text.to_string());
    let _ = db.graph().to_markdown(&key);
    let _ = db.global_search("more");
    let _ = db.graph().squash(&key, 2);
}

/// Drive every LSP surface for the note. Returns the first panic seen on a server thread.
pub fn drive_lsp(text: &str, ext: &str, grid: bool) -> Result<(), (String, String)> {
    let mut lib = api::Lib::new();
    lib.insert("doc".into(), text.to_string());
    lib.insert("other".into(), "# other\n\n[doc](doc)\n".to_string());
    let mut srv = Server::start(&lib, ext, false, "");
    let fail = |srv: &mut Server, what: &str| -> Option<(String, String)> {
        srv.drain_panics();
        if let Some(rec) = srv.loop_panics.first().or(srv.worker_panics.first()) {
            return Some((rec.signature(), format!("{}: panic on thread {:?} at {}: {}", what, rec.thread, rec.file, rec.message)));
        }
        None
    };
    macro_rules! step {
        ($what:expr, $ans:expr) => {{
            let a: Answer = $ans;
            if let Some(f) = fail(&mut srv, $what) {
                srv.kill();
                return Err(f);
            }
            match a {
                Answer::Timeout => {
                    srv.kill();
                    return Err(("hang|lsp".into(), format!("{}: no answer within the backstop", $what)));
                }
                Answer::Disconnected => {
                    srv.kill();
                    return Err(("c03|server-gone".into(), format!("{}: server connection gone", $what)));
                }
                other => other,
            }
        }};
    }
    srv.did_change("doc", &format!("{}\n\nmore\n", text));
    srv.did_change("doc", text);
    srv.did_save("doc", Some(text));
    step!("formatting", srv.formatting("doc"));
    step!("documentSymbol", srv.document_symbols("doc"));
    step!("workspace/symbol", srv.workspace_symbols(""));
    step!("workspace/symbol q", srv.workspace_symbols("w1"));
    step!("inlayHint", srv.inlay_hints("doc"));
    step!("references", srv.references("doc"));
    step!("references other", srv.references("other"));
    let lines: Vec<&str> = text.lines().collect();
    let nlines = lines.len() as u32;
    let lstep = if grid { (nlines / 12).max(1) } else { (nlines / 3).max(1) };
    let mut l = 0u32;
    while l <= nlines + 1 {
        let len = lines.get(l as usize).map(|s| s.encode_utf16().count()).unwrap_or(0) as u32;
        let cstep = (len / 8).max(1);
        let mut c = 0u32;
        while c <= len + 1 {
            step!("definition", srv.pos_request("textDocument/definition", "doc", l, c));
            step!("prepareRename", srv.pos_request("textDocument/prepareRename", "doc", l, c));
            c += cstep;
        }
        let a = step!("codeAction", srv.code_actions("doc", l, None));
        if let Answer::Ok(Value::Array(actions)) = a {
            for act in actions.iter().take(8) {
                // inline-reference actions on dangling references / references outside a section
                // are C09's domain (known finding KF-INLINE-DANGLING); resolved here only in that
                // finding's own search
                let kind = act.get("kind").and_then(|k| k.as_str()).unwrap_or("");
                if kind.starts_with("refactor.inline.reference") && !feature_on("resolve_inline_reference") {
                    continue;
                }
                step!("codeAction/resolve", srv.resolve(act));
            }
        }
        l += lstep;
    }
    step!("definition past end", srv.pos_request("textDocument/definition", "doc", u32::MAX, u32::MAX));
    let (answered, joined, death) = srv.shutdown();
    if let Some(rec) = death {
        return Err((rec.signature(), format!("server loop died: {} {}", rec.file, rec.message)));
    }
    if !answered || !joined {
        return Err(("c03|shutdown".into(), format!("shutdown answered={} loop ended={}", answered, joined)));
    }
    Ok(())
}

impl Property for C03 {
    type Case = C03Case;
    fn id(&self) -> &'static str {
        "C03"
    }
    fn rule(&self) -> String {
        "(i) structured documents with the hostile alphabet (NUL, BOM, tabs, U+2028, unbalanced brackets, fence and table fragments ...) and every nesting on, incl. every block kind as first block of a list item and empty items; (ii) a size-parametrised scale family (N sibling paragraphs / items / headings, nesting depth D of lists, quotes and emphasis, one line of L words, K-column tables, N links in a paragraph); each note is loaded, formatted, searched, path-listed, probed by line, updated twice over an older version, squashed, and driven through the in-memory LSP server (didChange, didSave, formatting, symbols, hints, references, definition / prepareRename / rename over a grid of positions incl. past the end, code actions at every sampled line and resolve of every action offered, shutdown); oracle: no panic on any thread (hook), no abort (worker process status), termination (watchdog); non-trivial = scans to >= 2 blocks with >= 1 container, or a scale member".into()
    }
    fn assumptions(&self) -> Vec<String> {
        vec![
            "release build without overflow checks, as shipped".into(),
            "loop thread with 8 MB stack (process main thread), request workers with the default 2 MB, as in production".into(),
            "a hang is reported only for structured (small) inputs after 60 s in isolation; scale members are never reported as hangs".into(),
        ]
    }
    fn max_shrink_iters(&self) -> u32 {
        300
    }
    /// coverage-guided phase: runs per job, set by what one case costs under instrumentation
    fn fuzz_runs(&self, tier: Tier) -> u64 {
        match tier {
            Tier::Quick => 0,
            Tier::Thorough => 300,
        }
    }
    fn cases(&self, tier: Tier) -> u64 {
        match tier {
            Tier::Quick => 4000,
            Tier::Thorough => 100_000,
        }
    }
    fn hang_is_violation(&self) -> bool {
        true
    }
    fn strategy(&self, features: &Features, _tier: Tier) -> BoxedStrategy<C03Case> {
        let mut cfg = crate::gen::doc::DocCfg::new(features);
        cfg.hostile = true;
        // links into the little library the note is loaded with ("other" links back to "doc")
        cfg.pool.internal = vec!["other".into(), "doc".into(), "n1".into(), "sub/n4".into()];
        cfg.max_blocks = 8;
        let big = features.on("scale_big");
        let ext = prop_oneof![Just(String::new()), Just(".md".to_string())];
        let doc = (crate::gen::doc::text(&cfg), ext.clone()).prop_map(|(text, ext)| C03Case { text, scale: None, ext });
        let size = if big {
            prop_oneof![4 => 1u32..400, 2 => 400u32..3000, 1 => 3000u32..20000].boxed()
        } else {
            prop_oneof![4 => 1u32..200, 1 => 200u32..1200].boxed()
        };
        let scale = (0u8..13, size, ext).prop_map(move |(kind, n, ext)| {
            // depth-like kinds stay smaller: nesting is quadratic in text size
            let n = match kind {
                2 | 3 | 9 => {
                    if big {
                        n.min(600)
                    } else {
                        n.min(40)
                    }
                }
                // line lookup in the reader is quadratic in the number of lines (17 000 headings
                // take minutes): sizes stay where a case ends well inside the watchdog. About
                // 2 500 siblings are what the recursion finding needs.
                6 | 7 | 11 => n.min(2600),
                _ => n.min(5000),
            };
            C03Case { text: String::new(), scale: Some((kind, n)), ext }
        });
        prop_oneof![12 => doc, 1 => scale].boxed()
    }
    fn check(&self, case: &C03Case, stats: &mut Stats) -> Verdict {
        let text = match case.scale {
            Some((k, n)) => scale_text(k, n),
            None => case.text.clone(),
        };
        let s = crate::scan::scan(&text);
        if let Some(r) = crate::canon::crash_domain_discard(&s) {
            return Verdict::Discard(r);
        }
        drive_library_api(&text, &case.ext);
        let st = crate::canon::scan_stats(&s, &text);
        for k in &st.kinds {
            stats.class(&format!("has:{}", k));
        }
        if let Some((k, _)) = case.scale {
            stats.class(&format!("scale:{}", k));
        }
        if let Err((sig, detail)) = drive_lsp(&text, &case.ext, case.scale.is_none()) {
            return Verdict::fail(sig, format!("{}\ninput ({} bytes):\n{}", detail, text.len(), super::common::show(&text.chars().take(600).collect::<String>())));
        }
        stats.class("lsp-door");
        Verdict::Pass { nontrivial: case.scale.is_some() || (st.blocks >= 2 && st.max_depth >= 1) }
    }
    fn sample(&self, case: &C03Case) -> serde_json::Value {
        match case.scale {
            Some((k, n)) => serde_json::json!({"scale_kind": k, "n": n, "ext": case.ext}),
            None => serde_json::json!({"text": case.text, "ext": case.ext}),
        }
    }
}
