use std::path::PathBuf;
use vcheck::framework::*;
use vcheck::props;

macro_rules! dispatch {
    ($id:expr, $f:ident $(, $arg:expr)*) => {
        match $id {
            "C01" => $f(&props::c01::C01 $(, $arg)*),
            "C02" => $f(&props::c02::C02 $(, $arg)*),
            "C03" => $f(&props::c03::C03 $(, $arg)*),
            "C04" => $f(&props::c04::C04 $(, $arg)*),
            "C05" => $f(&props::c05::C05 $(, $arg)*),
            "C06" => $f(&props::c06::C06 $(, $arg)*),
            "C07" => $f(&props::c07::C07 $(, $arg)*),
            "C14" => $f(&props::c14::C14 $(, $arg)*),
            "C15" => $f(&props::c15::C15 $(, $arg)*),
            "C16" => $f(&props::c16::C16 $(, $arg)*),
            "C17" => $f(&props::c17::C17 $(, $arg)*),
            "C18" => $f(&props::c18::C18 $(, $arg)*),
            "C19" => $f(&props::c19::C19 $(, $arg)*),
            "C20" => $f(&props::c20::C20 $(, $arg)*),
            "C13" => $f(&props::c13::C13 $(, $arg)*),
            "C08" => $f(&props::c08::C08 $(, $arg)*),
            "C09" => $f(&props::c09::C09 $(, $arg)*),
            "C10" => $f(&props::c10::C10 $(, $arg)*),
            "C11" => $f(&props::c11::C11 $(, $arg)*),
            "C12" => $f(&props::c12::C12 $(, $arg)*),
            other => {
                eprintln!("unknown property {}", other);
                2
            }
        }
    };
}

fn do_run<P: Property>(p: &P, opts: &RunOpts) -> i32 {
    supervise(p, opts)
}

fn do_worker<P: Property>(p: &P, cfg_path: &str) -> i32 {
    let cfg: WorkerCfg = serde_json::from_slice(&std::fs::read(cfg_path).expect("cfg")).expect("cfg json");
    let res = run_worker(p, &cfg);
    std::fs::write(&cfg.result, serde_json::to_vec(&res).unwrap()).expect("write result");
    0
}

fn do_one<P: Property>(p: &P, file: &str) -> i32 {
    let v: serde_json::Value = serde_json::from_slice(&std::fs::read(file).expect("case file")).expect("case json");
    let case = v.get("case").cloned().unwrap_or(v);
    let verdict = run_one(p, &case);
    println!("ONE-RESULT {}", serde_json::to_string(&OneResult { verdict }).unwrap());
    0
}

/// `vcheck fuzzcase <ID> <bytes file>`: decode a fuzzer input into the property's case (debugging aid).
fn do_fuzzcase<P: Property>(p: &P, file: &str) -> i32 {
    let data = std::fs::read(file).expect("input file");
    let mut features = Features::default();
    if let Ok(off) = std::env::var("VERIF_FEATURES_OFF") {
        for f in off.split(',').filter(|f| !f.is_empty()) {
            features.off.insert(f.to_string());
        }
    }
    match vcheck::fuzzing::decode(p, &features, Tier::Quick, &data) {
        Some(case) => {
            println!("{}", serde_json::to_string_pretty(&case).unwrap());
            0
        }
        None => {
            println!("undecodable");
            2
        }
    }
}

/// `vcheck fuzzshrink <ID> <fuzz cfg json> <bytes file> <signature> <out json>`: shrink a case the
/// coverage-guided phase found (separate process: a shrink step may crash).
fn do_fuzzshrink<P: Property>(p: &P, cfg: &str, file: &str, sig: &str, out: &str) -> i32 {
    let cfg: vcheck::fuzzing::FuzzCfg = serde_json::from_slice(&std::fs::read(cfg).expect("cfg")).expect("cfg json");
    let data = std::fs::read(file).expect("input file");
    match vcheck::fuzzing::shrink(p, &cfg.features, cfg.tier, &data, sig, p.max_shrink_iters()) {
        Some((case, detail)) => {
            let body = serde_json::json!({"property": p.id(), "signature": sig, "detail": detail, "case": case});
            std::fs::write(out, serde_json::to_vec_pretty(&body).unwrap()).expect("write shrunk case");
            0
        }
        None => 2,
    }
}

fn do_replay<P: Property>(p: &P, file: &str) -> i32 {
    replay(p, &PathBuf::from(file))
}

fn main() {
    install_panic_hook();
    let args: Vec<String> = std::env::args().collect();
    if args.len() < 3 {
        eprintln!("usage: vcheck run|worker|one|replay <ID> [...]");
        std::process::exit(2);
    }
    let id = args[2].as_str();
    let code = match args[1].as_str() {
        "run" => {
            let mut tier = match std::env::var("VERIF_TIER").ok().as_deref() {
                Some("thorough") => Tier::Thorough,
                _ => Tier::Quick,
            };
            let mut i = 3;
            while i < args.len() {
                if args[i] == "--tier" && i + 1 < args.len() {
                    tier = if args[i + 1] == "thorough" { Tier::Thorough } else { Tier::Quick };
                    i += 1;
                }
                i += 1;
            }
            let seed = std::env::var("VERIF_SEED").ok().and_then(|s| s.parse::<u64>().ok()).unwrap_or(1);
            let opts = RunOpts { tier, seed };
            dispatch!(id, do_run, &opts)
        }
        "worker" => dispatch!(id, do_worker, &args[3]),
        "one" => dispatch!(id, do_one, &args[3]),
        "replay" => dispatch!(id, do_replay, &args[3]),
        "fuzzshrink" if args.len() >= 7 => dispatch!(id, do_fuzzshrink, &args[3], &args[4], &args[5], &args[6]),
        "fuzzcase" => dispatch!(id, do_fuzzcase, &args[3]),
        "dump16" => props::c16::child_main(&args[3]),
        _ => 2,
    };
    std::process::exit(code);
}
