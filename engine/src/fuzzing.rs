//! Coverage-guided tier: the same strategies and oracles as the proptest search, driven by libFuzzer.
//!
//! The fuzzer's bytes are the random stream of the property's proptest strategy
//! (`RngAlgorithm::PassThrough`): every byte string decodes to a structured case of the property's
//! strict domain, a mutation of a few bytes is a local change of a few generator decisions, and
//! coverage feedback from iwe (instrumented by cargo-fuzz) steers the search. The semantic oracle
//! (`Property::check`) runs inside the target. A failure that is not tolerated is written as a JSON
//! case to `<found_dir>` and the process aborts, so libFuzzer stops that job and keeps the input;
//! the supervisor re-judges every found case with the normal `-O` engine in an isolated process
//! before anything is reported.
use crate::framework::*;
use crate::props;
use proptest::strategy::{Strategy, ValueTree};
use proptest::test_runner::{Config, RngAlgorithm, TestRng, TestRunner};
use serde::{Deserialize, Serialize};
use std::path::PathBuf;
use std::sync::atomic::{AtomicU64, Ordering};
use std::sync::OnceLock;

#[derive(Clone, Debug, Serialize, Deserialize)]
pub struct FuzzCfg {
    pub id: String,
    pub tier: Tier,
    pub features: Features,
    pub tolerated: Vec<String>,
    /// directory for journals (`current-<pid>.json`), found cases and counters
    pub dir: String,
}

// 1 MiB: a library of 5 notes x 3 versions draws several thousand 8-byte samples; with the former
// 32 KiB tail such a case ran the stream dry, rand then sampled zeros forever and the job ended in
// a libFuzzer timeout before any case was journaled (seen in the C20 campaign, session 3)
const TAIL: usize = 1 << 20;
static CFG: OnceLock<FuzzCfg> = OnceLock::new();
static EXECS: AtomicU64 = AtomicU64::new(0);
static NONTRIVIAL: AtomicU64 = AtomicU64::new(0);
static DISCARDS: AtomicU64 = AtomicU64::new(0);
static TOLERATED: AtomicU64 = AtomicU64::new(0);
static UNDECODABLE: AtomicU64 = AtomicU64::new(0);

fn cfg() -> &'static FuzzCfg {
    CFG.get_or_init(|| {
        let path = std::env::var("VERIF_FUZZ_CFG").expect("VERIF_FUZZ_CFG names the fuzz configuration");
        let cfg: FuzzCfg = serde_json::from_slice(&std::fs::read(&path).expect("fuzz cfg")).expect("fuzz cfg json");
        // libfuzzer-sys installs a hook that aborts on any panic; ours records the panic so that the
        // oracle can classify it (known signatures are tolerated, anything else is reported)
        install_panic_hook();
        set_active_features(&cfg.features);
        let _ = std::fs::create_dir_all(PathBuf::from(&cfg.dir).join("found"));
        extern "C" fn at_exit() {
            if let Some(c) = CFG.get() {
                write_counters(c);
            }
        }
        unsafe {
            libc::atexit(at_exit);
        }
        cfg
    })
}

/// Shrink a case found by the fuzzer: rebuild the value tree from the same bytes and run proptest's
/// simplify / complicate loop against the oracle, keeping to the signature that was found.
pub fn shrink<P: Property>(p: &P, features: &Features, tier: Tier, data: &[u8], sig: &str, max_iters: u32) -> Option<(P::Case, String)> {
    set_active_features(features);
    let mut tree = decode_tree(p, features, tier, data)?;
    let fails = |case: &P::Case| -> Option<String> {
        let mut st = Stats::default();
        match eval_case(p, case, &mut st) {
            Verdict::Fail { sig: s, detail } if s == sig => Some(detail),
            _ => None,
        }
    };
    let mut best = tree.current();
    let mut detail = fails(&best)?;
    let mut iters = 0;
    'outer: while iters < max_iters && tree.simplify() {
        loop {
            iters += 1;
            let cur = tree.current();
            if let Some(d) = fails(&cur) {
                best = cur;
                detail = d;
                break;
            }
            if iters >= max_iters || !tree.complicate() {
                break 'outer;
            }
        }
    }
    Some((best, detail))
}

fn decode_tree<P: Property>(p: &P, features: &Features, tier: Tier, data: &[u8]) -> Option<Box<dyn ValueTree<Value = P::Case>>> {
    let strategy = p.strategy(features, tier);
    let mut stream = Vec::with_capacity(data.len() + TAIL);
    stream.extend_from_slice(data);
    let mut x = hash64(data) | 1;
    while stream.len() < data.len() + TAIL {
        x ^= x << 13;
        x ^= x >> 7;
        x ^= x << 17;
        stream.extend_from_slice(&x.wrapping_mul(0x2545F4914F6CDD1D).to_le_bytes());
    }
    let rng = TestRng::from_seed(RngAlgorithm::PassThrough, &stream);
    let mut runner = TestRunner::new_with_rng(Config { failure_persistence: None, ..Config::default() }, rng);
    strategy.new_tree(&mut runner).ok()
}

/// Decode the fuzzer's bytes into a case of property `p` (None: the strategy rejected the stream).
pub fn decode<P: Property>(p: &P, features: &Features, tier: Tier, data: &[u8]) -> Option<P::Case> {
    // building a strategy compiles its regexes: do it once per process
    thread_local! {
        static STRATEGY: std::cell::RefCell<Option<Box<dyn std::any::Any>>> = std::cell::RefCell::new(None);
    }
    let strategy: proptest::strategy::BoxedStrategy<P::Case> = STRATEGY.with(|c| {
        let mut c = c.borrow_mut();
        if c.is_none() {
            *c = Some(Box::new(p.strategy(features, tier)));
        }
        c.as_ref().unwrap().downcast_ref::<proptest::strategy::BoxedStrategy<P::Case>>().expect("one property per process").clone()
    });
    // rand's uniform sampling rejects a run of zero words forever, and PassThrough yields zeros once
    // its data is used up: append a pseudo-random tail derived from the data, so that the stream
    // never runs dry (the case stays a pure function of the fuzzer's bytes)
    let mut stream = Vec::with_capacity(data.len() + TAIL);
    stream.extend_from_slice(data);
    let mut x = hash64(data) | 1;
    while stream.len() < data.len() + TAIL {
        x ^= x << 13;
        x ^= x >> 7;
        x ^= x << 17;
        stream.extend_from_slice(&x.wrapping_mul(0x2545F4914F6CDD1D).to_le_bytes());
    }
    let rng = TestRng::from_seed(RngAlgorithm::PassThrough, &stream);
    let mut runner = TestRunner::new_with_rng(Config { failure_persistence: None, ..Config::default() }, rng);
    strategy.new_tree(&mut runner).ok().map(|t| t.current())
}

fn write_counters(c: &FuzzCfg) {
    let body = serde_json::json!({
        "execs": EXECS.load(Ordering::Relaxed),
        "nontrivial": NONTRIVIAL.load(Ordering::Relaxed),
        "discards": DISCARDS.load(Ordering::Relaxed),
        "tolerated": TOLERATED.load(Ordering::Relaxed),
        "undecodable": UNDECODABLE.load(Ordering::Relaxed),
    });
    let _ = std::fs::write(PathBuf::from(&c.dir).join(format!("stats-{}.json", std::process::id())), body.to_string());
}

fn fuzz_prop<P: Property>(p: &P, data: &[u8]) -> i32 {
    let c = cfg();
    let n = EXECS.fetch_add(1, Ordering::Relaxed) + 1;
    if n % 256 == 0 {
        write_counters(c);
    }
    let case = match guarded(|| decode(p, &c.features, c.tier, data)) {
        Ok(Some(case)) => case,
        _ => {
            UNDECODABLE.fetch_add(1, Ordering::Relaxed);
            return 0;
        }
    };
    let bytes = serde_json::to_vec(&case).unwrap_or_default();
    let journal = PathBuf::from(&c.dir).join(format!("current-{}.json", std::process::id()));
    let _ = std::fs::write(&journal, &bytes);
    let mut stats = Stats::default();
    match eval_case(p, &case, &mut stats) {
        Verdict::Pass { nontrivial } => {
            if nontrivial {
                NONTRIVIAL.fetch_add(1, Ordering::Relaxed);
            }
        }
        Verdict::Discard(_) => {
            DISCARDS.fetch_add(1, Ordering::Relaxed);
        }
        Verdict::Fail { sig, detail } => {
            if c.tolerated.iter().any(|pat| sig_matches(pat, &sig)) {
                TOLERATED.fetch_add(1, Ordering::Relaxed);
            } else {
                let body = serde_json::json!({"property": c.id, "signature": sig, "detail": detail,
                    "case": serde_json::to_value(&case).unwrap_or(serde_json::Value::Null)});
                let name = format!("{}.json", &sha_hex(&bytes)[..16]);
                let _ = std::fs::write(PathBuf::from(&c.dir).join("found").join(&name), serde_json::to_vec_pretty(&body).unwrap());
                // the fuzzer's input itself, so that the supervisor can shrink the case through the strategy
                let _ = std::fs::write(PathBuf::from(&c.dir).join("found").join(name.replace(".json", ".bin")), data);
                write_counters(c);
                eprintln!("FUZZ-FOUND property={} signature={}", c.id, sig);
                let _ = std::fs::remove_file(&journal);
                std::process::abort();
            }
        }
    }
    let _ = std::fs::remove_file(&journal);
    0
}

macro_rules! dispatch {
    ($id:expr, $f:ident $(, $arg:expr)*) => {
        match $id {
            "C01" => $f(&props::c01::C01 $(, $arg)*),
            "C02" => $f(&props::c02::C02 $(, $arg)*),
            "C03" => $f(&props::c03::C03 $(, $arg)*),
            "C04" => $f(&props::c04::C04 $(, $arg)*),
            "C05" => $f(&props::c05::C05 $(, $arg)*),
            "C06" => $f(&props::c06::C06 $(, $arg)*),
            "C07" => $f(&props::c07::C07 $(, $arg)*),
            "C08" => $f(&props::c08::C08 $(, $arg)*),
            "C09" => $f(&props::c09::C09 $(, $arg)*),
            "C10" => $f(&props::c10::C10 $(, $arg)*),
            "C12" => $f(&props::c12::C12 $(, $arg)*),
            "C13" => $f(&props::c13::C13 $(, $arg)*),
            "C15" => $f(&props::c15::C15 $(, $arg)*),
            "C17" => $f(&props::c17::C17 $(, $arg)*),
            "C18" => $f(&props::c18::C18 $(, $arg)*),
            "C20" => $f(&props::c20::C20 $(, $arg)*),
            _ => 2,
        }
    };
}

/// Properties with a coverage-guided tier. C11 (parked threads per schedule), C14 and C19 (real
/// directories, spawned binary) and C16 (child processes, thread pools) are process- or
/// disk-bound: a fuzzer iteration there costs tens of milliseconds and coverage of the harness
/// itself dominates, so they stay with the proptest search.
pub fn fuzzable(id: &str) -> bool {
    #[allow(unreachable_code)]
    matches!(id, "C01" | "C02" | "C03" | "C04" | "C05" | "C06" | "C07" | "C08" | "C09" | "C10" | "C12" | "C13" | "C15" | "C17" | "C18" | "C20")
}

/// Entry point of the libFuzzer target.
pub fn fuzz_entry(data: &[u8]) {
    let id = cfg().id.clone();
    let _ = dispatch!(id.as_str(), fuzz_prop, data);
}

/// Raw byte-level targets: the bytes are the document(s) (lossy UTF-8), no generator at all. C03:
/// one note through every API and LSP method; C20: two notes in three versions each plus a short
/// operation history, judged by the forest walker.
pub fn fuzz_raw_doc(data: &[u8]) {
    let id = cfg().id.clone();
    match id.as_str() {
        "C20" => fuzz_raw(&props::c20::C20, props::c20::raw_case(data), "C20"),
        _ => fuzz_raw(&props::c03::C03, props::c03::raw_case(data), "C03"),
    }
}

fn fuzz_raw<P: Property>(p: &P, case: P::Case, id: &str) {
    let c = cfg();
    let n = EXECS.fetch_add(1, Ordering::Relaxed) + 1;
    if n % 256 == 0 {
        write_counters(c);
    }
    let bytes = serde_json::to_vec(&case).unwrap_or_default();
    let journal = PathBuf::from(&c.dir).join(format!("current-{}.json", std::process::id()));
    let _ = std::fs::write(&journal, &bytes);
    let mut stats = Stats::default();
    match eval_case(p, &case, &mut stats) {
        Verdict::Pass { nontrivial } => {
            if nontrivial {
                NONTRIVIAL.fetch_add(1, Ordering::Relaxed);
            }
        }
        Verdict::Discard(_) => {
            DISCARDS.fetch_add(1, Ordering::Relaxed);
        }
        Verdict::Fail { sig, detail } => {
            if c.tolerated.iter().any(|pat| sig_matches(pat, &sig)) {
                TOLERATED.fetch_add(1, Ordering::Relaxed);
            } else {
                let body = serde_json::json!({"property": id, "signature": sig, "detail": detail,
                    "case": serde_json::to_value(&case).unwrap_or(serde_json::Value::Null)});
                let name = format!("{}.json", &sha_hex(&bytes)[..16]);
                let _ = std::fs::write(PathBuf::from(&c.dir).join("found").join(name), serde_json::to_vec_pretty(&body).unwrap());
                write_counters(c);
                eprintln!("FUZZ-FOUND property={} signature={}", id, sig);
                let _ = std::fs::remove_file(&journal);
                std::process::abort();
            }
        }
    }
    let _ = std::fs::remove_file(&journal);
}
