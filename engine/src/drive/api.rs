//! Driving the liwe library API the way its users do.

use liwe::graph::Graph;
use liwe::markdown::MarkdownReader;
use liwe::model::config::MarkdownOptions;
use liwe::model::{Key, State};
use std::collections::BTreeMap;

pub type Lib = BTreeMap<String, String>;

pub fn opts(ext: &str) -> MarkdownOptions {
    MarkdownOptions {
        refs_extension: ext.to_string(),
    }
}

pub fn to_state(lib: &Lib) -> State {
    lib.iter().map(|(k, v)| (k.clone(), v.clone())).collect()
}

/// from_markdown + to_markdown of one note in an otherwise empty graph.
pub fn format_single(key: &str, text: &str, ext: &str) -> String {
    let mut g = Graph::new_with_options(opts(ext));
    g.from_markdown(Key::from_file_name(key), text, MarkdownReader::new());
    g.to_markdown(&Key::from_file_name(key))
}

/// import + export of a whole library.
pub fn format_library(lib: &Lib, ext: &str) -> Lib {
    let g = Graph::import(&to_state(lib), opts(ext));
    g.export().into_iter().collect()
}

/// import, then update_key(key, text), then to_markdown(key)
pub fn format_via_update(lib: &Lib, key: &str, text: &str, ext: &str) -> String {
    let mut g = Graph::import(&to_state(lib), opts(ext));
    g.update_key(Key::from_file_name(key), text);
    g.to_markdown(&Key::from_file_name(key))
}
