//! Applying a WorkspaceEdit (as JSON) to an in-memory copy of the library.

use crate::drive::api::Lib;
use crate::drive::lsp::key_of_uri;
use lsp_types::Url;
use serde_json::Value;

#[derive(Debug, Clone, PartialEq)]
pub enum Op {
    Create(String),
    Delete(String),
    /// full replacement of the note's text
    Replace(String, String),
    /// insertion at the very start (used for freshly created files)
    InsertAtStart(String, String),
}

/// Decode the `documentChanges` operations of a WorkspaceEdit value. Errors describe shapes the
/// harness does not understand (reported as a violation of the edit's well-formedness by callers).
pub fn decode(edit: &Value) -> Result<Vec<Op>, String> {
    let ops = edit
        .get("documentChanges")
        .and_then(|d| d.as_array())
        .ok_or_else(|| format!("no documentChanges array in {}", edit))?;
    let mut out = vec![];
    for op in ops {
        if let Some(kind) = op.get("kind").and_then(|k| k.as_str()) {
            let uri = op.get("uri").and_then(|u| u.as_str()).ok_or("resource op without uri")?;
            let key = Url::parse(uri).ok().and_then(|u| key_of_uri(&u)).ok_or_else(|| format!("uri outside the library: {}", uri))?;
            match kind {
                "create" => out.push(Op::Create(key)),
                "delete" => out.push(Op::Delete(key)),
                other => return Err(format!("unsupported resource op {}", other)),
            }
        } else {
            let uri = op
                .get("textDocument")
                .and_then(|t| t.get("uri"))
                .and_then(|u| u.as_str())
                .ok_or("edit without textDocument.uri")?;
            let key = Url::parse(uri).ok().and_then(|u| key_of_uri(&u)).ok_or_else(|| format!("uri outside the library: {}", uri))?;
            let edits = op.get("edits").and_then(|e| e.as_array()).ok_or("edit without edits")?;
            for e in edits {
                let text = e.get("newText").and_then(|t| t.as_str()).ok_or("edit without newText")?.to_string();
                let r = e.get("range").ok_or("edit without range")?;
                let sl = r["start"]["line"].as_u64().unwrap_or(0);
                let sc = r["start"]["character"].as_u64().unwrap_or(0);
                let el = r["end"]["line"].as_u64().unwrap_or(0);
                let ec = r["end"]["character"].as_u64().unwrap_or(0);
                if sl == 0 && sc == 0 && el == 0 && ec == 0 {
                    out.push(Op::InsertAtStart(key.clone(), text));
                } else if sl == 0 && sc == 0 && el >= 100_000 {
                    out.push(Op::Replace(key.clone(), text));
                } else {
                    return Err(format!("partial range edit {}", r));
                }
            }
        }
    }
    Ok(out)
}

pub fn apply(lib: &Lib, ops: &[Op]) -> Result<Lib, String> {
    let mut out = lib.clone();
    for op in ops {
        match op {
            Op::Create(k) => {
                if out.contains_key(k) {
                    return Err(format!("create of an existing note {}", k));
                }
                out.insert(k.clone(), String::new());
            }
            Op::Delete(k) => {
                if out.remove(k).is_none() {
                    return Err(format!("delete of a note that does not exist: {}", k));
                }
            }
            Op::Replace(k, t) => {
                if !out.contains_key(k) {
                    return Err(format!("edit of a note that does not exist: {}", k));
                }
                out.insert(k.clone(), t.clone());
            }
            Op::InsertAtStart(k, t) => match out.get_mut(k) {
                Some(old) => {
                    let mut n = t.clone();
                    n.push_str(old);
                    *old = n;
                }
                None => return Err(format!("insert into a note that does not exist: {}", k)),
            },
        }
    }
    Ok(out)
}
