pub mod api;
