pub mod api;
pub mod edits;
pub mod lsp;
