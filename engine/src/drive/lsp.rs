//! Driving the LSP server in-process through lsp_server::Connection::memory(), as the repo's own
//! fixture does, with event-based detection of requests that never get an answer.

use crate::drive::api::Lib;
use crate::framework::{set_panic_channel, PanicRecord};
use crossbeam_channel::{select, Receiver};
use iwes::router::{LspClient, Router, ServerConfig};
use liwe::model::config::Configuration;
use lsp_server::{Connection, Message, Notification, Request, RequestId, Response};
use lsp_types::Url;
use serde_json::{json, Value};
use std::time::Duration;

pub const BASE: &str = "/basepath";

/// request ids are unique per process, so that late threads of an earlier in-process server can
/// never be mistaken for workers of the current one
static NEXT_ID: std::sync::atomic::AtomicI32 = std::sync::atomic::AtomicI32::new(1);
pub const LOOP_THREAD: &str = "iwes-loop";

pub struct Server {
    pub client: Connection,
    thread: Option<std::thread::JoinHandle<Result<(), String>>>,
    next_id: i32,
    panic_rx: Receiver<PanicRecord>,
    /// panics recorded on the loop thread (notification handlers), in order
    pub loop_panics: Vec<PanicRecord>,
    /// requests the server sent to the client (workspace/applyEdit)
    pub server_requests: Vec<Request>,
    pub extra_responses: Vec<Response>,
    /// panics seen on request worker threads (answered with an error or not)
    pub worker_panics: Vec<PanicRecord>,
    pub timeout: Duration,
    /// number of didChange notifications sent so far (drives the document version pattern)
    did_changes: std::sync::atomic::AtomicU32,
}

#[derive(Debug, Clone)]
pub enum Answer {
    Ok(Value),
    Err(i32, String),
    /// the worker thread died; nothing was sent
    NoResponse(PanicRecord),
    Timeout,
    Disconnected,
}

impl Answer {
    pub fn value(&self) -> Option<&Value> {
        match self {
            Answer::Ok(v) => Some(v),
            _ => None,
        }
    }
    pub fn responded(&self) -> bool {
        matches!(self, Answer::Ok(_) | Answer::Err(_, _))
    }
}

pub fn uri_of(key: &str) -> Url {
    Url::from_file_path(format!("{}/{}.md", BASE, key)).expect("uri")
}

pub fn key_of_uri(uri: &Url) -> Option<String> {
    let p = uri.to_file_path().ok()?;
    let s = p.to_str()?.to_string();
    let rest = s.strip_prefix(&format!("{}/", BASE))?;
    Some(rest.strip_suffix(".md").unwrap_or(rest).to_string())
}

impl Server {
    /// `sequential`: the fixture's test facility for new keys; false = production generator.
    pub fn start(lib: &Lib, ext: &str, sequential: bool, client_name: &str) -> Server {
        let (tx, rx) = crossbeam_channel::unbounded();
        set_panic_channel(Some(tx));
        let (connection, client) = Connection::memory();
        let state: std::collections::HashMap<String, String> = lib.iter().map(|(k, v)| (k.clone(), v.clone())).collect();
        let mut configuration = Configuration::default();
        configuration.markdown.refs_extension = ext.to_string();
        let lsp_client = if client_name == "helix" { LspClient::Helix } else { LspClient::Unknown };
        // the loop runs on the process's main thread in production (8 MB stack on Linux); request
        // workers are spawned by the router itself with the default 2 MB
        let thread = std::thread::Builder::new()
            .name(LOOP_THREAD.to_string())
            .stack_size(8 * 1024 * 1024)
            .spawn(move || {
                let router = Router::new(
                    connection.sender,
                    ServerConfig {
                        base_path: BASE.to_string(),
                        state,
                        sequential_ids: Some(sequential),
                        lsp_client,
                        configuration,
                    },
                );
                router.run(connection.receiver).map_err(|e| e.to_string())
            })
            .expect("spawn server");
        Server {
            client,
            thread: Some(thread),
            next_id: NEXT_ID.fetch_add(1, std::sync::atomic::Ordering::SeqCst),
            panic_rx: rx,
            loop_panics: vec![],
            server_requests: vec![],
            extra_responses: vec![],
            worker_panics: vec![],
            timeout: Duration::from_secs(30),
            did_changes: std::sync::atomic::AtomicU32::new(0),
        }
    }

    /// Start the server the way the `iwes` binary does: the library is read from disk.
    pub fn start_from_disk(base_path: &str, ext: &str) -> Server {
        let (tx, rx) = crossbeam_channel::unbounded();
        set_panic_channel(Some(tx));
        let (connection, client) = Connection::memory();
        let mut configuration = Configuration::default();
        configuration.markdown.refs_extension = ext.to_string();
        let base = base_path.to_string();
        let thread = std::thread::Builder::new()
            .name(LOOP_THREAD.to_string())
            .stack_size(8 * 1024 * 1024)
            .spawn(move || {
                iwes::main_loop(
                    connection,
                    iwes::ServerParams {
                        state: None,
                        sequential_ids: None,
                        client_name: None,
                        configuration,
                        base_path: base,
                    },
                )
                .map_err(|e| e.to_string())
            })
            .expect("spawn server");
        Server {
            client,
            thread: Some(thread),
            next_id: NEXT_ID.fetch_add(1, std::sync::atomic::Ordering::SeqCst),
            panic_rx: rx,
            loop_panics: vec![],
            server_requests: vec![],
            extra_responses: vec![],
            worker_panics: vec![],
            timeout: Duration::from_secs(30),
            did_changes: std::sync::atomic::AtomicU32::new(0),
        }
    }

    pub fn notify(&self, method: &str, params: Value) -> bool {
        self.client
            .sender
            .send(Message::Notification(Notification { method: method.to_string(), params }))
            .is_ok()
    }

    /// The document version follows a fixed non-monotone pattern (1, 3, 5, 2, 4, 1, ...): editors
    /// restart the counter when a buffer is closed and opened again, and the server (which handles
    /// neither didOpen nor didClose) must apply every change it is sent.
    pub fn did_change(&self, key: &str, text: &str) -> bool {
        let n = self.did_changes.fetch_add(1, std::sync::atomic::Ordering::Relaxed);
        let version = (n * 2) % 5 + 1;
        self.notify(
            "textDocument/didChange",
            json!({"textDocument": {"uri": uri_of(key), "version": version}, "contentChanges": [{"text": text}]}),
        )
    }

    pub fn did_save(&self, key: &str, text: Option<&str>) -> bool {
        self.notify("textDocument/didSave", json!({"textDocument": {"uri": uri_of(key)}, "text": text}))
    }

    /// the id the next request will carry
    pub fn peek_id(&self) -> RequestId {
        self.next_id.into()
    }

    pub fn send_request(&mut self, method: &str, params: Value) -> Option<RequestId> {
        let id: RequestId = self.next_id.into();
        self.next_id = NEXT_ID.fetch_add(1, std::sync::atomic::Ordering::SeqCst);
        let ok = self
            .client
            .sender
            .send(Message::Request(Request { id: id.clone(), method: method.to_string(), params }))
            .is_ok();
        if ok {
            Some(id)
        } else {
            None
        }
    }

    /// Wait for the response to `id`. A panic on an unnamed (request worker) thread while waiting
    /// means the worker died before answering.
    pub fn wait(&mut self, id: &RequestId) -> Answer {
        loop {
            select! {
                recv(self.client.receiver) -> msg => match msg {
                    Ok(Message::Response(r)) => {
                        if &r.id == id {
                            return match (r.result, r.error) {
                                (_, Some(e)) => Answer::Err(e.code, e.message),
                                (Some(v), None) => Answer::Ok(v),
                                (None, None) => Answer::Ok(Value::Null),
                            };
                        } else {
                            self.extra_responses.push(r);
                        }
                    }
                    Ok(Message::Request(r)) => self.server_requests.push(r),
                    Ok(Message::Notification(_)) => {}
                    Err(_) => return Answer::Disconnected,
                },
                recv(self.panic_rx) -> rec => match rec {
                    Ok(rec) => {
                        if rec.thread == LOOP_THREAD {
                            self.loop_panics.push(rec);
                        } else {
                            self.worker_panics.push(rec.clone());
                            // give an already sent response a chance to be seen first
                            if let Ok(Message::Response(r)) = self.client.receiver.recv_timeout(Duration::from_millis(200)) {
                                if &r.id == id {
                                    return match (r.result, r.error) {
                                        (_, Some(e)) => Answer::Err(e.code, e.message),
                                        (Some(v), None) => Answer::Ok(v),
                                        (None, None) => Answer::Ok(Value::Null),
                                    };
                                }
                                self.extra_responses.push(r);
                            }
                            return Answer::NoResponse(rec);
                        }
                    }
                    Err(_) => return Answer::Disconnected,
                },
                default(self.timeout) => return Answer::Timeout,
            }
        }
    }

    pub fn request(&mut self, method: &str, params: Value) -> Answer {
        match self.send_request(method, params) {
            Some(id) => self.wait(&id),
            None => Answer::Disconnected,
        }
    }

    /// After a `Disconnected` answer: the panic that ended the loop thread, if one was recorded
    /// (loading the library at start-up happens on that thread).
    pub fn loop_death(&mut self) -> Option<PanicRecord> {
        self.drain_panics();
        self.loop_panics.last().cloned()
    }

    /// Collect loop-thread panics that have been reported so far (non-blocking).
    pub fn drain_panics(&mut self) {
        while let Ok(rec) = self.panic_rx.try_recv() {
            if rec.thread == LOOP_THREAD {
                self.loop_panics.push(rec);
            } else {
                self.worker_panics.push(rec);
            }
        }
    }

    // ---- typed helpers -------------------------------------------------------------------

    pub fn formatting(&mut self, key: &str) -> Answer {
        self.request(
            "textDocument/formatting",
            json!({"textDocument": {"uri": uri_of(key)}, "options": {"tabSize": 4, "insertSpaces": true}}),
        )
    }

    /// formatted text of a note, if the request was answered with one full-range edit
    pub fn formatted_text(&mut self, key: &str) -> Result<String, Answer> {
        let a = self.formatting(key);
        match a.value().and_then(|v| v.get(0)).and_then(|e| e.get("newText")).and_then(|t| t.as_str()) {
            Some(t) => Ok(t.to_string()),
            None => Err(a),
        }
    }

    pub fn pos_request(&mut self, method: &str, key: &str, line: u32, character: u32) -> Answer {
        self.request(
            method,
            json!({"textDocument": {"uri": uri_of(key)}, "position": {"line": line, "character": character}}),
        )
    }

    pub fn references(&mut self, key: &str) -> Answer {
        self.request(
            "textDocument/references",
            json!({"textDocument": {"uri": uri_of(key)}, "position": {"line": 0, "character": 0}, "context": {"includeDeclaration": false}}),
        )
    }

    pub fn inlay_hints(&mut self, key: &str) -> Answer {
        self.request(
            "textDocument/inlayHint",
            json!({"textDocument": {"uri": uri_of(key)}, "range": {"start": {"line": 0, "character": 0}, "end": {"line": 100000, "character": 0}}}),
        )
    }

    pub fn document_symbols(&mut self, key: &str) -> Answer {
        self.request("textDocument/documentSymbol", json!({"textDocument": {"uri": uri_of(key)}}))
    }

    pub fn workspace_symbols(&mut self, query: &str) -> Answer {
        self.request("workspace/symbol", json!({"query": query}))
    }

    pub fn code_actions(&mut self, key: &str, line: u32, only: Option<&str>) -> Answer {
        let mut ctx = json!({"diagnostics": []});
        if let Some(k) = only {
            ctx["only"] = json!([k]);
        }
        self.request(
            "textDocument/codeAction",
            json!({"textDocument": {"uri": uri_of(key)}, "range": {"start": {"line": line, "character": 0}, "end": {"line": line, "character": 0}}, "context": ctx}),
        )
    }

    pub fn resolve(&mut self, action: &Value) -> Answer {
        self.request("codeAction/resolve", action.clone())
    }

    pub fn rename(&mut self, key: &str, line: u32, character: u32, new_name: &str) -> Answer {
        self.request(
            "textDocument/rename",
            json!({"textDocument": {"uri": uri_of(key)}, "position": {"line": line, "character": character}, "newName": new_name}),
        )
    }

    /// shutdown + exit; returns (shutdown answered, loop ended cleanly)
    pub fn shutdown(mut self) -> (bool, bool, Option<PanicRecord>) {
        let a = self.request("shutdown", Value::Null);
        let answered = a.responded();
        let death = if answered { None } else { self.loop_death() };
        let _ = self.notify("exit", Value::Null);
        let joined = match self.thread.take() {
            Some(t) => {
                // join with a bounded wait
                let (tx, rx) = crossbeam_channel::bounded(1);
                std::thread::spawn(move || {
                    let r = t.join();
                    let _ = tx.send(matches!(r, Ok(Ok(()))));
                });
                rx.recv_timeout(Duration::from_secs(20)).unwrap_or(false)
            }
            None => false,
        };
        set_panic_channel(None);
        (answered, joined, death)
    }

    /// shutdown + exit with attribution: Err((signature, detail)) when the loop had died (its panic
    /// signature), shutdown was not answered or the loop did not end.
    pub fn finish(self, prefix: &str) -> Result<(), (String, String)> {
        let (answered, joined, death) = self.shutdown();
        if let Some(rec) = death {
            return Err((rec.signature(), format!("the server loop died: panic at {}: {}", rec.file, rec.message)));
        }
        if !answered {
            return Err((format!("{}|shutdown-unanswered", prefix), "shutdown was not answered".into()));
        }
        if !joined {
            return Err((format!("{}|exit-hangs", prefix), "exit did not end the loop cleanly".into()));
        }
        Ok(())
    }

    /// Drop the connection without the shutdown handshake (server loop ends with an error).
    pub fn kill(mut self) {
        let t = self.thread.take();
        set_panic_channel(None);
        drop(self);
        if let Some(t) = t {
            let _ = t.join();
        }
    }
}

impl Drop for Server {
    fn drop(&mut self) {
        // nothing: dropping `client` disconnects the channels and ends the loop thread
    }
}
