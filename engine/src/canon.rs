//! Content fingerprint (C01), outline (C07) and link table (C05/C06/C08) computed from a Scan.
//! Tolerances implemented here are the ones written down in DESIGN.md §4.3.

use crate::pathalg;
use crate::scan::*;
use serde::{Deserialize, Serialize};

#[derive(Clone, Debug, PartialEq, Serialize, Deserialize)]
pub struct CLink {
    pub kind: String, // regular | wiki | wikipiped | image
    pub dest: String, // normalised destination (resolved key for internal, raw otherwise)
    pub text: String, // plain text (masked for refreshable links)
}

#[derive(Clone, Debug, PartialEq, Serialize, Deserialize)]
pub struct CText {
    pub text: String,
    pub links: Vec<CLink>,
    /// styled spans in order: (style, text)
    pub spans: Vec<(String, String)>,
}

#[derive(Clone, Debug, PartialEq, Serialize, Deserialize)]
pub enum CBlock {
    /// text and source level (the level is judged by C07 only)
    Heading(CText, u8),
    Para(CText),
    Code { lang: String, body: String },
    Quote(Vec<CBlock>),
    List { ordered: bool, items: Vec<Vec<CBlock>> },
    Table { head: Vec<CText>, rows: Vec<Vec<CText>> },
    Rule,
}

impl CBlock {
    pub fn kind(&self) -> &'static str {
        match self {
            CBlock::Heading(_, _) => "heading",
            CBlock::Para(_) => "para",
            CBlock::Code { .. } => "code",
            CBlock::Quote(_) => "quote",
            CBlock::List { ordered: true, .. } => "olist",
            CBlock::List { ordered: false, .. } => "blist",
            CBlock::Table { .. } => "table",
            CBlock::Rule => "rule",
        }
    }
}

#[derive(Clone, Debug, PartialEq, Serialize, Deserialize)]
pub struct Canon {
    pub metadata: Option<String>,
    pub blocks: Vec<CBlock>,
}

pub struct CanonOpts {
    /// directory of the note (for resolving internal destinations)
    pub dir: String,
    /// mask the text of refreshable links (regular links with an internal destination)
    pub mask_refreshable: bool,
}

pub const MASK: &str = "\u{27e6}L\u{27e7}";

fn refreshable(kind: &LinkKind, dest: &str) -> bool {
    matches!(kind, LinkKind::Regular | LinkKind::Autolink) && is_ref_url(dest)
}

fn ctext(inl: &[SInline], o: &CanonOpts) -> CText {
    let mut text = String::new();
    let mut links = vec![];
    let mut spans = vec![];
    fn rec(inl: &[SInline], o: &CanonOpts, text: &mut String, links: &mut Vec<CLink>, spans: &mut Vec<(String, String)>, masked: bool) {
        for i in inl {
            match i {
                SInline::Text(t) | SInline::Html(t) => {
                    if !masked {
                        text.push_str(t)
                    }
                }
                SInline::Code(t) => {
                    if !masked {
                        text.push_str(t);
                    }
                    spans.push(("code".into(), collapse_ws(t)));
                }
                SInline::SoftBreak | SInline::HardBreak => {
                    if !masked {
                        text.push(' ')
                    }
                }
                SInline::Emph(c) => {
                    spans.push(("emph".into(), if masked { MASK.into() } else { collapse_ws(&plain_text(c)) }));
                    rec(c, o, text, links, spans, masked);
                }
                SInline::Strong(c) => {
                    spans.push(("strong".into(), if masked { MASK.into() } else { collapse_ws(&plain_text(c)) }));
                    rec(c, o, text, links, spans, masked);
                }
                SInline::Strike(c) => {
                    spans.push(("strike".into(), if masked { MASK.into() } else { collapse_ws(&plain_text(c)) }));
                    rec(c, o, text, links, spans, masked);
                }
                SInline::Link { kind, dest, children, .. } => {
                    let internal = is_ref_url(dest);
                    let mask = o.mask_refreshable && refreshable(kind, dest);
                    let k = match kind {
                        LinkKind::Regular | LinkKind::Autolink => "regular",
                        LinkKind::Wiki => "wiki",
                        LinkKind::WikiPiped => "wikipiped",
                    };
                    let ndest = if internal {
                        pathalg::resolve(&o.dir, pathalg::strip_md(dest))
                    } else {
                        dest.clone()
                    };
                    let ltext = if mask || *kind == LinkKind::Wiki {
                        MASK.to_string()
                    } else {
                        collapse_ws(&plain_text(children))
                    };
                    links.push(CLink {
                        kind: k.into(),
                        dest: ndest,
                        text: ltext,
                    });
                    if mask || *kind == LinkKind::Wiki {
                        if !masked {
                            text.push_str(MASK);
                        }
                        rec(children, o, text, links, spans, true);
                    } else {
                        rec(children, o, text, links, spans, masked);
                    }
                }
                SInline::Image { dest, children, .. } => {
                    links.push(CLink {
                        kind: "image".into(),
                        dest: dest.clone(),
                        text: collapse_ws(&plain_text(children)),
                    });
                    rec(children, o, text, links, spans, masked);
                }
                SInline::Other(t) => {
                    if !masked {
                        text.push_str(t)
                    }
                }
            }
        }
    }
    rec(inl, o, &mut text, &mut links, &mut spans, false);
    CText {
        text: collapse_ws(&text),
        links,
        spans,
    }
}

fn trim_blank_lines(body: &str) -> String {
    // leading/trailing blank lines of a code body are presentation (normalization_raw raw_trim*)
    // trailing whitespace of a line is spacing, not content
    let b: Vec<&str> = body.lines().map(|l| l.trim_end()).collect();
    b.join("\n").trim_matches('\n').to_string()
}

pub fn cblocks(blocks: &[SBlock], o: &CanonOpts) -> Vec<CBlock> {
    let mut out = vec![];
    for b in blocks {
        match &b.kind {
            BKind::Heading(l) => out.push(CBlock::Heading(ctext(&b.inlines, o), *l)),
            BKind::Para => out.push(CBlock::Para(ctext(&b.inlines, o))),
            BKind::Code { lang, .. } => out.push(CBlock::Code {
                lang: lang.trim().to_string(),
                body: trim_blank_lines(&b.text),
            }),
            BKind::Quote => {
                // a quote that holds nothing once its HTML blocks are dropped is not written at all
                let inner = cblocks(&b.children, o);
                if !inner.is_empty() {
                    out.push(CBlock::Quote(inner))
                }
            }
            BKind::List { ordered, .. } => {
                let items = b
                    .children
                    .iter()
                    .filter(|c| matches!(c.kind, BKind::Item))
                    .map(|it| cblocks(&it.children, o))
                    .collect();
                out.push(CBlock::List {
                    ordered: *ordered,
                    items,
                })
            }
            BKind::Table => {
                let mut head = vec![];
                let mut rows = vec![];
                for c in &b.children {
                    match c.kind {
                        BKind::TableHead => head = c.children.iter().map(|cell| ctext(&cell.inlines, o)).collect(),
                        BKind::TableRow => rows.push(c.children.iter().map(|cell| ctext(&cell.inlines, o)).collect()),
                        _ => {}
                    }
                }
                out.push(CBlock::Table { head, rows })
            }
            BKind::Rule => out.push(CBlock::Rule),
            BKind::Html => {}  // documented drop
            BKind::Item | BKind::TableHead | BKind::TableRow | BKind::TableCell => {}
            BKind::Other(_) => {}
        }
    }
    out
}

pub fn canon(s: &Scan, o: &CanonOpts) -> Canon {
    Canon {
        metadata: s.metadata.as_ref().map(|m| m.replace("\r\n", "\n")),
        blocks: cblocks(&s.blocks, o),
    }
}

// ---------------------------------------------------------------------------------------------
// diff with classification
// ---------------------------------------------------------------------------------------------

#[derive(Debug)]
pub struct Diff {
    pub sig: String,
    pub detail: String,
}

fn ctx_name(ctx: &[&'static str]) -> String {
    if ctx.is_empty() {
        "top".into()
    } else {
        ctx.join(">")
    }
}

fn text_diff_kind(a: &CText, b: &CText) -> String {
    if a.text != b.text {
        let ta: Vec<&str> = a.text.split(' ').collect();
        let tb: Vec<&str> = b.text.split(' ').collect();
        let ja = a.text.replace(' ', "");
        let jb = b.text.replace(' ', "");
        if ja == jb {
            if tb.len() < ta.len() {
                return "text-glued".into();
            } else {
                return "text-split".into();
            }
        }
        if jb.len() < ja.len() {
            return "text-lost".into();
        }
        return "text-changed".into();
    }
    if a.links.len() != b.links.len() {
        return "link-count".into();
    }
    for (x, y) in a.links.iter().zip(b.links.iter()) {
        if x.kind != y.kind {
            return format!("link-kind:{}>{}", x.kind, y.kind);
        }
        if x.dest != y.dest {
            return format!("link-dest:{}", x.kind);
        }
        if x.text != y.text {
            return format!("link-text:{}", x.kind);
        }
    }
    if a.spans != b.spans {
        return "inline-style".into();
    }
    "same".into()
}

pub fn diff_blocks(a: &[CBlock], b: &[CBlock], ctx: &mut Vec<&'static str>) -> Option<Diff> {
    let n = a.len().min(b.len());
    for i in 0..n {
        let (x, y) = (&a[i], &b[i]);
        if x.kind() != y.kind() {
            return Some(Diff {
                sig: format!("kind:{}>{}|{}", x.kind(), y.kind(), ctx_name(ctx)),
                detail: format!("block {} in {}: expected {:?}\n got {:?}", i, ctx_name(ctx), x, y),
            });
        }
        match (x, y) {
            (CBlock::Heading(p, _), CBlock::Heading(q, _)) | (CBlock::Para(p), CBlock::Para(q)) => {
                if p != q {
                    return Some(Diff {
                        sig: format!("{}:{}|{}", x.kind(), text_diff_kind(p, q), ctx_name(ctx)),
                        detail: format!("block {} in {}: expected {:?}\n got {:?}", i, ctx_name(ctx), p, q),
                    });
                }
            }
            (CBlock::Code { lang: l1, body: b1 }, CBlock::Code { lang: l2, body: b2 }) => {
                if l1 != l2 {
                    return Some(Diff {
                        sig: format!("code:lang|{}", ctx_name(ctx)),
                        detail: format!("code lang expected {:?} got {:?}", l1, l2),
                    });
                }
                if b1 != b2 {
                    return Some(Diff {
                        sig: format!("code:body|{}", ctx_name(ctx)),
                        detail: format!("code body expected {:?} got {:?}", b1, b2),
                    });
                }
            }
            (CBlock::Quote(p), CBlock::Quote(q)) => {
                ctx.push("quote");
                let d = diff_blocks(p, q, ctx);
                ctx.pop();
                if d.is_some() {
                    return d;
                }
            }
            (CBlock::List { items: p, ordered }, CBlock::List { items: q, .. }) => {
                if p.len() != q.len() {
                    return Some(Diff {
                        sig: format!("list:item-count|{}", ctx_name(ctx)),
                        detail: format!("list in {}: expected {} items got {}\nexpected {:?}\n got {:?}", ctx_name(ctx), p.len(), q.len(), p, q),
                    });
                }
                ctx.push(if *ordered { "oitem" } else { "bitem" });
                for (pi, qi) in p.iter().zip(q.iter()) {
                    let d = diff_blocks(pi, qi, ctx);
                    if d.is_some() {
                        ctx.pop();
                        return d;
                    }
                }
                ctx.pop();
            }
            (CBlock::Table { head: h1, rows: r1 }, CBlock::Table { head: h2, rows: r2 }) => {
                if h1.len() != h2.len() || r1.len() != r2.len() || r1.iter().zip(r2.iter()).any(|(a, b)| a.len() != b.len()) {
                    return Some(Diff {
                        sig: format!("table:shape|{}", ctx_name(ctx)),
                        detail: format!("table shape: expected {:?}\n got {:?}", x, y),
                    });
                }
                let cells1 = h1.iter().chain(r1.iter().flatten());
                let cells2 = h2.iter().chain(r2.iter().flatten());
                for (c1, c2) in cells1.zip(cells2) {
                    if c1 != c2 {
                        return Some(Diff {
                            sig: format!("table:cell:{}|{}", text_diff_kind(c1, c2), ctx_name(ctx)),
                            detail: format!("table cell: expected {:?}\n got {:?}", c1, c2),
                        });
                    }
                }
            }
            _ => {}
        }
    }
    if a.len() != b.len() {
        let (sig, extra) = if a.len() > b.len() {
            (format!("block-lost:{}|{}", a[n].kind(), ctx_name(ctx)), format!("{:?}", &a[n..]))
        } else {
            (format!("block-invented:{}|{}", b[n].kind(), ctx_name(ctx)), format!("{:?}", &b[n..]))
        };
        return Some(Diff {
            sig,
            detail: format!("in {}: expected {} blocks got {}; surplus: {}", ctx_name(ctx), a.len(), b.len(), extra),
        });
    }
    None
}

pub fn diff(a: &Canon, b: &Canon) -> Option<Diff> {
    if a.metadata != b.metadata {
        return Some(Diff {
            sig: "metadata".into(),
            detail: format!("front matter expected {:?} got {:?}", a.metadata, b.metadata),
        });
    }
    diff_blocks(&a.blocks, &b.blocks, &mut vec![])
}

// ---------------------------------------------------------------------------------------------
// statistics over a scan (feature classes, non-triviality)
// ---------------------------------------------------------------------------------------------

#[derive(Default, Debug, Clone)]
pub struct ScanStats {
    pub blocks: usize,
    pub kinds: std::collections::BTreeSet<&'static str>,
    pub max_depth: usize,
    pub links: usize,
    pub multiline_para: bool,
    pub non_ascii: bool,
    pub headings: usize,
    pub list_items: usize,
}

pub fn scan_stats(s: &Scan, text: &str) -> ScanStats {
    let mut st = ScanStats::default();
    st.non_ascii = !text.is_ascii();
    walk(&s.blocks, &mut |b, path| {
        let k = match &b.kind {
            BKind::Heading(_) => {
                st.headings += 1;
                "heading"
            }
            BKind::Para => "para",
            BKind::Code { .. } => "code",
            BKind::Quote => "quote",
            BKind::List { .. } => "list",
            BKind::Item => {
                st.list_items += 1;
                return;
            }
            BKind::Table => "table",
            BKind::Rule => "rule",
            BKind::Html => "html",
            _ => return,
        };
        st.blocks += 1;
        st.kinds.insert(k);
        let depth = path.iter().filter(|p| matches!(p.kind, BKind::Quote | BKind::Item)).count();
        st.max_depth = st.max_depth.max(depth);
        let mut ls = vec![];
        links_of(&b.inlines, &mut ls);
        st.links += ls.len();
        if b.inlines.iter().any(|i| matches!(i, SInline::SoftBreak | SInline::HardBreak)) {
            st.multiline_para = true;
        }
    });
    st
}

// ---------------------------------------------------------------------------------------------
// C07: documented restructurings and heading levels
// ---------------------------------------------------------------------------------------------

/// Apply to the *expected* side the three restructurings the C07 quantifier allows:
/// a heading that is the first block of a list item counts as that item's text; an item that
/// starts with a list is merged into the enclosing list (its remaining blocks go to the last
/// merged item); empty items carry nothing.
pub fn restructure(blocks: &mut Vec<CBlock>) {
    for b in blocks.iter_mut() {
        match b {
            CBlock::Quote(inner) => restructure(inner),
            CBlock::List { items, .. } => {
                let old = std::mem::take(items);
                let mut out: Vec<Vec<CBlock>> = vec![];
                for it in old {
                    flatten_item(it, &mut out);
                }
                for it in out.iter_mut() {
                    if let Some(CBlock::Heading(t, _)) = it.first().cloned() {
                        it[0] = CBlock::Para(t);
                    }
                    restructure(it);
                }
                *items = out;
            }
            _ => {}
        }
    }
    // a list that lost all its items disappears
    blocks.retain(|b| !matches!(b, CBlock::List { items, .. } if items.is_empty()));
}

fn flatten_item(mut it: Vec<CBlock>, out: &mut Vec<Vec<CBlock>>) {
    if it.is_empty() {
        return;
    }
    if let CBlock::List { .. } = &it[0] {
        let first = it.remove(0);
        if let CBlock::List { items, .. } = first {
            let before = out.len();
            for sub in items {
                flatten_item(sub, out);
            }
            if out.len() > before {
                out.last_mut().unwrap().extend(it);
            } else if !it.is_empty() {
                flatten_item(it, out);
            }
        }
        return;
    }
    out.push(it);
}

pub fn well_nested(levels: &[u8]) -> bool {
    if levels.is_empty() {
        return true;
    }
    if levels[0] != 1 {
        return false;
    }
    levels.windows(2).all(|w| w[1] <= w[0] + 1)
}

fn scope_levels(blocks: &[CBlock]) -> Vec<u8> {
    blocks
        .iter()
        .filter_map(|b| if let CBlock::Heading(_, l) = b { Some(*l) } else { None })
        .collect()
}

/// Compare heading levels scope by scope (document, each quote, each list item). Trees must
/// already be structurally equal. Returns (description, input levels, output levels) of the first
/// scope that breaks the rule.
pub fn levels_diff(a: &[CBlock], b: &[CBlock], ctx: &mut Vec<&'static str>, stats: &mut (u64, u64)) -> Option<Diff> {
    let la = scope_levels(a);
    let lb = scope_levels(b);
    if !la.is_empty() {
        if well_nested(&la) {
            stats.0 += 1;
            if la != lb {
                return Some(Diff {
                    sig: format!("levels:well-nested-changed|{}", ctx_name(ctx)),
                    detail: format!("scope {}: well-nested input levels {:?} came out as {:?}", ctx_name(ctx), la, lb),
                });
            }
        } else {
            stats.1 += 1;
            if !well_nested(&lb) {
                return Some(Diff {
                    sig: format!("levels:not-well-nested|{}", ctx_name(ctx)),
                    detail: format!("scope {}: input levels {:?} came out as {:?}, which is not well-nested", ctx_name(ctx), la, lb),
                });
            }
        }
    }
    for (x, y) in a.iter().zip(b.iter()) {
        match (x, y) {
            (CBlock::Quote(p), CBlock::Quote(q)) => {
                ctx.push("quote");
                let d = levels_diff(p, q, ctx, stats);
                ctx.pop();
                if d.is_some() {
                    return d;
                }
            }
            (CBlock::List { items: p, ordered }, CBlock::List { items: q, .. }) => {
                ctx.push(if *ordered { "oitem" } else { "bitem" });
                for (pi, qi) in p.iter().zip(q.iter()) {
                    let d = levels_diff(pi, qi, ctx, stats);
                    if d.is_some() {
                        ctx.pop();
                        return d;
                    }
                }
                ctx.pop();
            }
            _ => {}
        }
    }
    None
}

/// Scan-level domain predicate for KF-FENCE-IN-CODE: some code block body holds a line that starts
/// (after up to three spaces) with three or more backticks.
pub fn has_fence_in_code(s: &Scan) -> bool {
    let mut found = false;
    walk(&s.blocks, &mut |b, _| {
        if let BKind::Code { .. } = b.kind {
            for l in b.text.lines() {
                let t = l.trim_start();
                if l.len() - t.len() <= 3 && t.starts_with("```") {
                    found = true;
                }
            }
        }
    });
    found
}

/// Drop quotes without content (an empty quote carries nothing).
pub fn drop_empty_quotes(blocks: &mut Vec<CBlock>) {
    for b in blocks.iter_mut() {
        match b {
            CBlock::Quote(inner) => drop_empty_quotes(inner),
            CBlock::List { items, .. } => items.iter_mut().for_each(|it| drop_empty_quotes(it)),
            _ => {}
        }
    }
    blocks.retain(|b| !matches!(b, CBlock::Quote(inner) if inner.is_empty()));
}

/// Scan-level domain predicate for KF-ADJACENT-LISTS: some scope holds two consecutive lists of the
/// same kind (blocks that iwe drops or that carry nothing are already absent from the canon).
pub fn has_adjacent_same_lists(blocks: &[CBlock]) -> bool {
    for w in blocks.windows(2) {
        if let (CBlock::List { ordered: a, .. }, CBlock::List { ordered: b, .. }) = (&w[0], &w[1]) {
            if a == b {
                return true;
            }
        }
    }
    blocks.iter().any(|b| match b {
        CBlock::Quote(inner) => has_adjacent_same_lists(inner),
        CBlock::List { items, .. } => items.iter().any(|it| has_adjacent_same_lists(it)),
        _ => false,
    })
}

/// Scan-level predicate for KF-ITEM-FIRST-BLOCK: a list item whose first block (raw HTML blocks
/// are dropped by the reader and do not count) is a code block, quote, table or rule.
/// Blocks that iwe does not read at all: raw HTML, and a quote that holds nothing besides.
pub fn is_dropped_block(b: &SBlock) -> bool {
    match b.kind {
        BKind::Html => true,
        BKind::Quote => b.children.iter().all(is_dropped_block),
        _ => false,
    }
}

pub fn has_item_first_block(s: &Scan) -> bool {
    let mut found = false;
    walk(&s.blocks, &mut |b, _| {
        if matches!(b.kind, BKind::Item) {
            if let Some(first) = b.children.iter().find(|c| !is_dropped_block(c)) {
                if matches!(first.kind, BKind::Code { .. } | BKind::Quote | BKind::Table | BKind::Rule) {
                    found = true;
                }
            }
        }
    });
    found
}

/// Known-finding domains that are recognised on the scan of the input rather than excluded by
/// generator construction. Returns the reason when the case lies in a domain whose feature is off.
pub fn domain_discard(s: &Scan) -> Option<String> {
    use crate::framework::feature_on;
    if !feature_on("code_fence_in_body") && has_fence_in_code(s) {
        return Some("known-domain: code body contains a fence line".into());
    }
    if !feature_on("item_first_block") && has_item_first_block(s) {
        return Some("known-domain: list item starts with a code block, quote, table or rule".into());
    }
    if !feature_on("escape") && s.backslash_escape_in_text {
        return Some("known-domain: backslash escape in running text".into());
    }
    if !feature_on("item_first_list_nested") && has_nested_item_first_list(s) {
        return Some("known-domain: list item starts with a list whose first item starts with a list".into());
    }
    None
}

/// Scan-level predicate for KF-ITEM-FIRST-LIST: a list item whose first block is itself a list.
pub fn has_item_first_list(s: &Scan) -> bool {
    let mut found = false;
    walk(&s.blocks, &mut |b, _| {
        if matches!(b.kind, BKind::Item) {
            if let Some(first) = b.children.iter().find(|c| !is_dropped_block(c)) {
                if matches!(first.kind, BKind::List { .. }) {
                    found = true;
                }
            }
        }
    });
    found
}

/// Scan-level predicate for the nested form of KF-ITEM-FIRST-LIST: an item whose first block is a
/// list whose first item again starts with a list (`- * * a`). Blocks that follow inside such
/// items are not reachable from the note's root and are lost on output.
pub fn has_nested_item_first_list(s: &Scan) -> bool {
    fn first_list(item: &SBlock) -> Option<&SBlock> {
        item.children.iter().find(|c| !is_dropped_block(c)).filter(|c| matches!(c.kind, BKind::List { .. }))
    }
    let mut found = false;
    walk(&s.blocks, &mut |b, _| {
        if matches!(b.kind, BKind::Item) {
            if let Some(l1) = first_list(b) {
                if let Some(i1) = l1.children.iter().find(|c| matches!(c.kind, BKind::Item)) {
                    if first_list(i1).is_some() {
                        found = true;
                    }
                }
            }
        }
    });
    found
}

/// Crash-related known-finding domains (C03).
pub fn crash_domain_discard(s: &Scan) -> Option<String> {
    use crate::framework::feature_on;
    if !feature_on("item_first_block") && has_item_first_block(s) {
        return Some("known-domain: list item starts with a code block, quote, table or rule".into());
    }
    if !feature_on("item_first_list") && has_item_first_list(s) {
        return Some("known-domain: list item starts with a list".into());
    }
    None
}

/// Two consecutive lists of any kinds in some scope (changing the type of one makes them the same
/// kind, which iwe then writes as one list: KF-ADJACENT-LISTS by way of a conversion).
pub fn has_adjacent_lists_any(blocks: &[CBlock]) -> bool {
    for w in blocks.windows(2) {
        if matches!((&w[0], &w[1]), (CBlock::List { .. }, CBlock::List { .. })) {
            return true;
        }
    }
    blocks.iter().any(|b| match b {
        CBlock::Quote(inner) => has_adjacent_lists_any(inner),
        CBlock::List { items, .. } => items.iter().any(|it| has_adjacent_lists_any(it)),
        _ => false,
    })
}
