#!/usr/bin/env python3
"""Regenerates /verif/MANIFEST.json from the table below (kept in one place so it stays valid)."""
import json, sys
CHECKS = {
 "C01": dict(level="exploration", technique="property-based testing (proptest): grammar-generated documents, content-fingerprint oracle over an independent pulldown-cmark scan",
   text="Generated search over structured Markdown documents with unique word tokens; the oracle compares the content fingerprint of an independent scan of input and output under written-down tolerances. Finds loss, duplication, merging and re-kinding of blocks anywhere in the generated domain; cannot prove absence.",
   note="Trusted: pulldown-cmark 0.13 as the definition of what the input means; the harness's scanner and tolerance table (DESIGN.md 4.3). Known findings are excluded from the strict domain by generator feature and re-explored with their signature tolerated.", ref="7/C01"),
 "C02": dict(level="exploration", technique="property-based testing (proptest): metamorphic oracle f(f(x)) == f(x) on grammar-generated documents",
   text="Generated search with a purely metamorphic oracle (second formatting pass returns the first byte-for-byte; third pass checked to tell convergence from oscillation) through three doors and both extension settings.",
   note="No parser in the verdict; the scanner only classifies failures. Same known-finding policy as C01.", ref="7/C02"),
 "C04": dict(level="exploration", technique="property-based testing (proptest): generated edit histories (vec of ops + interpreter + model), differential oracle incremental instance vs. instance rebuilt from the model texts after every step",
   text="Histories of didChange/didSave/new-file operations with semantic edit operators (drop title, drop last block, empty, append, table in front of a block) over generated libraries; after every step a canonical observation dump (library API or LSP answers) of the incremental instance must equal that of a fresh instance.",
   note="Arena ids are mapped to (note, line, text). Reference locations are compared as multisets (hash-set order).", ref="7/C04"),
 "C05": dict(level="exploration", technique="property-based testing (proptest): generated libraries over directory layouts, reference model of backlinks from an independent scan and own path algebra, set equality both directions",
   text="Generated libraries (1-6 notes, root and nested directories, every link spelling and position); the expected backlink sets (note, line of linking block) come from an independent scan; compared as sets with the block and inline reference queries.",
   note="Trusted: pulldown-cmark, the harness's 15-line path algebra. LF only (C13 owns CRLF).", ref="7/C05"),
 "C06": dict(level="exploration", technique="property-based testing (proptest): generated libraries, per-link oracle (kind, resolved destination, extension, expected text from a title model) plus library-level fixpoint",
   text="Links of input and exported output are aligned per note; each must keep kind and resolved target, carry the configured extension, and show the title of the note it resolves to exactly when the property says so; the exported library must be a fixpoint.",
   note="Title model = plain text of the first heading per independent scan.", ref="7/C06"),
 "C07": dict(level="exploration", technique="property-based testing (proptest): heading/list-biased generated documents, outline oracle over an independent scan with the quantifier's restructurings applied to the expected side",
   text="Generated search over documents biased to heading level sequences and nested mixed lists (including items that start with a heading or a list and empty items); oracle: block tree equality modulo the three allowed restructurings plus per-scope heading-level rule (well-nested reproduced, otherwise re-nested).",
   note="Trusted: pulldown-cmark for the input outline; restructuring rules implemented from the property's quantifier.", ref="7/C07"),
 "C08": dict(level="exploration", technique="property-based testing (proptest): generated libraries and rename sites, WorkspaceEdit applied to an in-memory copy and judged by independent re-scan (link tables, content fingerprints)",
   text="For generated libraries, every link occurrence to an existing note as rename site and free / taken / sub-directory names: the returned edit is applied to a copy and re-scanned; old key gone, new key present, every link resolves where it must with acceptable text, link counts and content fingerprints unchanged, unrelated notes untouched, taken names refused.",
   note="Edit shapes understood: create, delete, full-range replace, insert at start.", ref="7/C08"),
 "C09": dict(level="exploration", technique="property-based testing (proptest): generated libraries, every offered extract/inline action applied to a copy; conservation oracles over unique word tokens, code bodies and the link table, placement oracles from an independent scan, extract-then-inline round trip",
   text="Every offered extract-section, extract-sub-sections, inline-as-section and inline-as-quote action is resolved and applied to a copy: tokens, code bodies and links are conserved and keep their per-origin order, new notes start with the promoted heading and hold exactly the subtree, the source keeps one titled reference under the parent, inlined content lands under the section that held the reference, and extract + inline restores the library byte-for-byte.",
   note="Production key generator; new names are opaque. The library is normalised first.", ref="7/C09"),
 "C10": dict(level="exploration", technique="property-based testing (proptest): generated notes, every offered conversion applied to a copy; token-sequence and link-sequence conservation, changed-region containment, and round-trip (inverse action requested on the edited text) oracles",
   text="Every offered section-to-list, list-to-sections and change-list-type action of a generated note is resolved and applied: words and links keep their sequence, the changed lines stay inside the targeted part as an independent scan delimits it, change-type twice and section-list-section restore the formatted original.",
   note="The note is normalised first. Round trips re-query the action after didChange.", ref="7/C10"),
 "C11": dict(level="exploration", technique="property-based testing over schedules: generated event lists with Advance(worker, point) steps; the harness owns the interleaving through the verif pause points; state-after-quiescence and per-request oracles",
   text="Schedules are generated values: every interleaving of the message loop with request workers at the granularity started / result computed / response sent / exited is reachable and replays exactly. Oracle: no notification handler panics or is skipped, the final state equals the last texts sent, requests after a notification see it.",
   note="Needs the verif hooks (cargo feature). Interleavings inside handlers are not explored.", ref="7/C11"),
 "C12": dict(level="exploration", technique="property-based testing (proptest): generated request/notification sequences against the in-memory LSP server, one-response-per-id oracle with event-based no-response detection and liveness probes",
   text="Sequences over all advertised methods and unknown ones with well-typed arbitrary parameters (unknown uris, huge positions, stale/missing code-action data, unknown commands); every request id must get exactly one response, probes must be answered, shutdown/exit must end the loop.",
   note="A request counts as unanswered when its worker thread is seen to panic (hook) and no response was sent; a 30 s backstop ends in inconclusive, not violation.", ref="7/C12"),
 "C13": dict(level="exploration", technique="property-based testing (proptest): generated notes with multi-byte text and CRLF, position probes derived from an independent offset-tracking scan and own UTF-16 line table",
   text="For every link of a generated note the harness computes the LSP span from byte offsets with its own line table and probes inside / outside positions: definition and prepare-rename must act exactly inside, go to the resolved note, return the destination range; symbol lines must be heading lines.",
   note="Boundary positions of a span are not judged; single-line links only.", ref="7/C13"),
 "C14": dict(level="exploration", technique="property-based testing (proptest): generated file names and library paths materialised on a real directory, server started from disk, uris built as editors build them; identity oracles across file / uri / key / link",
   text="Generated relative paths (spaces, non-ASCII, %, +, #, ?, dots, nested) under odd library directories are written to disk and loaded; editing each file through its uri must change that very note, response uris must convert back to files on disk, links by relative path must reach the file.",
   note="Real directories under /verif/work/fs (removed per case).", ref="7/C14"),
 "C15": dict(level="exploration", technique="property-based testing (proptest): generated (key, directory, url) triples, round-trip laws against the harness's own path algebra, plus export and completion checks on generated layouts",
   text="Write/read and read/write laws of the relative-link functions for keys and directories of depth 0-5 with shared-prefix names, and end-to-end: block references in four container positions of a note in D are exported and must still resolve to K; completion items must resolve to existing notes.",
   note="Trusted: the harness's path algebra (resolve/relative, unit-tested).", ref="7/C15"),
 "C16": dict(level="exploration", technique="property-based testing (proptest) over configurations: differential oracle of one id-free canonical dump across rayon pool sizes, a generated insertion permutation and separate child processes",
   text="The same generated library (20-160 notes with ties) is dumped under rayon pools of 1/2/3/8/16 threads, with insert_document in a permuted order, and in four fresh processes (fresh hash seeds); all dumps must be byte-identical.",
   note="Pool sizes and hash seeds are sampled, not enumerated; paths() is compared sorted (ordered by arena ids).", ref="7/C16"),
 "C17": dict(level="exploration", technique="property-based testing (proptest): generated reference graphs (trees, sharing, cycles, self-loops, dangling), own recursive expansion model compared with Graph::squash modulo sibling order, token-multiplicity check on the exported text, watchdog for termination",
   text="For generated libraries and depths 0-6 (up to 255 on chains and self-loops) the squashed tree must equal the harness's own depth-bounded expansion of the notes' trees modulo sibling order, and the rebuilt, exported text must contain every word token with the predicted multiplicity.",
   note="The notes' own section structure is taken from Graph::collect (C07 judges it); the expansion recursion is the harness's own.", ref="7/C17"),
 "C18": dict(level="exploration", technique="property-based testing (proptest): generated heading trees and include graphs, model of all simple heading chains from an independent scan compared as sets with Graph::paths, sort-key oracle for global_search with the documented comparator",
   text="The listed paths must equal, as a set, the model's simple chains from top-level headings of unincluded notes through sub-headings and block-reference includes (soundness and completeness); search results must be at most 100 and their sort keys exactly the first keys of all paths under the documented order, with ranks equal to the model's backlink counts.",
   note="Heading levels are generated well-nested; fuzzy scores are recomputed with the same fuzzy-matcher crate (trusted).", ref="7/C18"),
 "C19": dict(level="fault_enumeration", technique="property-based testing with injected faults: generated directory trees on a real file system, the built iwe binary, RLIMIT_FSIZE byte limits as generated / enumerated fault points under both SIGXFSZ dispositions; differential oracle against the in-memory export",
   text="Generated trees are normalised by the real binary; without fault every note must hold exactly what Graph::import+export defines and nothing else may change; with a file-size limit k (process killed at byte k, or write error at byte k) every note must hold its complete old or complete new text. For small trees all k up to the longest note are enumerated.",
   note="Fault points are byte offsets of file writes; kills inside rename/metadata calls and page-cache loss are not modelled.", ref="7/C19"),
 "C20": dict(level="exploration", technique="property-based testing (proptest): generated histories of imports, updates, insertions and patch-graph constructions with an external forest-invariant walker after every step",
   text="After every step of a generated history an external walker over nodes()/graph_node()/keys()/NodePointer checks: roots are documents, DFS visits every live node exactly once, prev pointers match, navigation answers agree with ownership, walk order equals the scanned block order, ids only grow, other notes' nodes are untouched.",
   note="Invariant over the history; the order check skips blocks without a text line.", ref="7/C20"),
 "C03": dict(level="exploration", technique="property-based testing and fuzzing: hostile structured documents and scale family, crash/abort/hang oracle via panic hook and worker process status",
   text="Every generated document is loaded, formatted, searched, path-listed, probed at every line, updated and driven through the in-memory LSP server; oracle is absence of panic, abort and hang.",
   note="Release build without overflow checks (what ships). Hang detection is a 10^4x watchdog, not a termination proof.", ref="7/C03"),
}
FUZZED = ["C01","C02","C03","C04","C05","C06","C07","C08","C09","C10","C12","C13","C15","C17","C18","C20"]
for _c in FUZZED:
    CHECKS[_c]["technique"] += "; the thorough tier adds coverage-guided fuzzing (cargo-fuzz / libFuzzer) that drives the same strategy through a pass-through RNG and runs the same oracle inside the target" + (", plus a byte-level target on raw note text" if _c == "C03" else ", plus a byte-level target (raw note texts and an operation history decoded from the fuzzer's bytes, forest-invariant oracle without the scanner)" if _c == "C20" else "")
CHECKS["C11"]["technique"] += "; a sub-space (<= 1 request quick / <= 2 requests thorough, <= 2 notifications, every advance pattern) is enumerated completely"
CHECKS["C05"]["technique"] += "; every library is judged twice: imported, and reached through updates of every note"
ALL = ["C%02d" % i for i in range(1, 21)]
NOT_YET = "check not built yet in this session (work in progress; the design in DESIGN.md section 7 applies)"
def main():
    claimed = [c for c in ALL if c in CHECKS and c in sys.argv[1:]] if len(sys.argv) > 1 else [c for c in ALL if c in CHECKS]
    m = {
      "version": 1,
      "setup_cmd": "cd /verif && ./setup.sh",
      "hooks": {"guard": "verif", "enable": "cargo feature `verif` on crate iwes; /verif/engine depends on iwes with features = [\"verif\"]", 
                "baseline_off_cmd": "cd /repo && cargo test --workspace --no-fail-fast --offline", "source_commits": ["a2bdc31"], "add_only": True},
      "engines": [{"name": "vcheck", "path": "/verif/engine", "serves_properties": claimed,
                   "kind_free_text": "Rust crate: proptest-driven generators, independent pulldown-cmark scanner, supervisor/worker processes, known-findings policy; cargo-fuzz targets in engine/fuzz for the thorough tier"}],
      "checks": [],
      "not_applicable": [],
      "notes": "Quick tier: fixed work (case counts). Exit 0 held / 1 violation (VIOLATION line) / 2 inconclusive. Known findings: /verif/known_findings.json.",
    }
    for c in claimed:
        d = CHECKS[c]
        m["checks"].append({
          "property_id": c, "quick_cmd": f"./check {c} --tier quick", "thorough_cmd": f"./check {c} --tier thorough",
          "evidence_file": f"/verif/evidence/{c}.json", "replay_cmd_template": f"./check {c} --replay {{path}}",
          "engine": "vcheck", "level_claimed": {"category": d["level"], "text": d["text"], "design_ref": d["ref"]},
          "level_note": d["note"], "technique": d["technique"]})
    for c in ALL:
        if c not in claimed:
            m["not_applicable"].append({"property_id": c, "reason": NOT_YET})
    json.dump(m, open("/verif/MANIFEST.json", "w"), indent=1)
    print("claimed:", claimed)
main()
