#!/usr/bin/env python3
"""Writes /verif/seeded/<name>/meta.json from notes.md (title, what it needs to manifest) and
seeded/MATRIX.txt (what tools/seed_matrix.sh observed)."""
import json, glob, os, re
R='/verif/seeded'
mat={}
for line in open(f'{R}/MATRIX.txt'):
    m=re.match(r'(\S+) (C\d\d) rc=(\d+) ?(.*)',line.strip())
    if m: mat.setdefault(m.group(1),[]).append((m.group(2),int(m.group(3)),m.group(4).strip()))
    elif line.strip(): mat.setdefault(line.split()[0],[]).append(('?',-1,line.strip()))
for d in sorted(glob.glob(f'{R}/*/')):
    name=os.path.basename(d.rstrip('/'))
    notes=open(d+'notes.md').read() if os.path.exists(d+'notes.md') else ''
    lines=notes.split('\n')
    title=re.sub(r'^#+\s*','',lines[0]) if lines else name
    needs=''
    for i,l in enumerate(lines):
        if i>0 and re.match(r'^#+ .*(need|manifest)',l,re.I):
            buf=[]
            for l2 in lines[i+1:]:
                if l2.startswith('#'): break
                buf.append(l2)
            needs=re.sub(r'\s+',' ',' '.join(buf)).strip()
            break
    if not needs:
        cand=[l for l in lines if re.search(r'manifest|needs|only when|requires',l,re.I)]
        needs=re.sub(r'\s+',' ',' '.join(cand[:3])).strip()
    if len(needs)>700: needs=needs[:700].rsplit(' ',1)[0]+' ...'
    runs=mat.get(name,[])
    demo=sorted(os.path.basename(f) for f in glob.glob(d+'*.rs'))
    meta={'name':name,'property':name.split('-')[0],'title':title,'needs':needs,
      'files':{'patch':'patch.diff','demonstration':demo,'demo_command':'DEMO_CMD.txt','notes':'notes.md'},
      'confirmed':'tools/verify_seed.sh: in a scratch worktree of /repo HEAD the patch applies, `cargo test --workspace --no-fail-fast --offline` gives 252 passed / 0 failed with it, the demonstration test fails with it and passes without it',
      'ran':'tools/mutrun.sh '+name+' patch.diff '+' '.join(c for c,_,_ in runs)+'  (quick tier, VERIF_SEED=1, against a patched worktree copy of /repo; /repo itself untouched)',
      'detected_by':[{'check':c,'signature':s} for c,rc,s in runs if rc==1],
      'not_detected_by':[c for c,rc,s in runs if rc==0],
      'inconclusive':[c for c,rc,s in runs if rc not in (0,1)]}
    if os.path.exists(d+'override.json'):
        meta.update(json.load(open(d+'override.json')))
    json.dump(meta,open(d+'meta.json','w'),indent=1,ensure_ascii=False)
    print(name, 'caught:',[x['check'] for x in meta['detected_by']], 'missed:',meta['not_detected_by'], 'inc:',meta['inconclusive'])
