#!/usr/bin/env python3
"""usage: kf_fixed.py KF-ID  - marks a known finding as fixed by /repo HEAD and renames its replays kf-* -> fixed-*"""
import json,subprocess,os,sys
p='/verif/known_findings.json'
k=json.load(open(p))
lst=k if isinstance(k,list) else k['findings']
commit=subprocess.check_output(['git','-C','/repo','log','-1','--format=%h']).decode().strip()
for e in lst:
    if e['id']==sys.argv[1]:
        e['status']='fixed'; e['commit']=commit; e['id']=e['id'].replace('KF-','FX-'); e['excludes']=[]; e['signatures']=[]; e['tolerate_in_strict']=[]
        newr={}
        for prop,r in e['replays'].items():
            nr=r.replace('/kf-','/fixed-')
            if os.path.exists('/verif/'+r): os.rename('/verif/'+r,'/verif/'+nr)
            newr[prop]=nr
        e['replays']=newr
        e['properties']=sorted(newr.keys())
        print('fixed',e['id'],commit,newr)
json.dump(k,open(p,'w'),indent=1,ensure_ascii=False)
