#!/bin/bash
# usage: seedtest.sh <patch.diff> <ID> [<ID>...]   applies the patch to /repo, runs the quick checks, reverts
PATCH=$1; shift
cd /repo || exit 2
if ! git apply --check "$PATCH" 2>/dev/null; then echo "PATCH DOES NOT APPLY: $PATCH"; exit 3; fi
git apply "$PATCH"
for id in "$@"; do
  out=$(cd /verif && ./check $id --tier quick 2>&1); rc=$?
  echo "== $id rc=$rc $(echo "$out" | grep -c '^VIOLATION') violations; $(echo "$out" | grep '^property=' | head -1)"
  echo "$out" | grep -A12 '^VIOLATION' | head -${SEEDTEST_LINES:-16}
done
git checkout -- . 
git status --short | head -5
