#!/bin/bash
# runs the repository's own suite (hooks off) and prints the totals
cd /repo && cargo test --workspace --no-fail-fast --offline 2>&1 | awk '/^test result/ {p+=$4; f+=$6} END {print "passed=" p " failed=" f}'
