#!/bin/bash
# Runs every confirmed seeded change in /verif/seeded against the relevant quick checks (isolated
# copies, see mutrun.sh) and writes /verif/seeded/MATRIX.txt. Sequential; takes a while.
declare -A REL
REL[C01]="C01 C02 C07 C04"; REL[C02]="C02 C01"; REL[C03]="C03 C12 C04"; REL[C04]="C04 C05 C18"
REL[C05]="C05 C04 C06 C20"; REL[C06]="C06 C05 C15"; REL[C07]="C07 C01 C02"; REL[C08]="C08 C04"
REL[C09]="C09"; REL[C10]="C10"; REL[C11]="C11 C12 C04"; REL[C12]="C12 C03 C11"; REL[C13]="C13 C05"
REL[C14]="C14 C04"; REL[C15]="C15 C06"; REL[C16]="C16 C18 C04"; REL[C17]="C17"; REL[C18]="C18 C04"
REL[C19]="C19"; REL[C20]="C20 C04 C03"
OUT=/verif/seeded/MATRIX.txt
: > $OUT.tmp
for d in /verif/seeded/*/; do
  n=$(basename $d); p=${n%%-*}
  [ -f $d/patch.diff ] || continue
  /verif/tools/mutrun.sh $n $d/patch.diff ${REL[$p]} >> $OUT.tmp 2>&1
done
mv $OUT.tmp $OUT
