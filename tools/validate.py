#!/opt/veriftools/pyvenv/bin/python
import json, jsonschema, glob, sys
jsonschema.validate(json.load(open('/verif/MANIFEST.json')), json.load(open('/root/.vp/MANIFEST.schema.json')))
es = json.load(open('/root/.vp/EVIDENCE.schema.json'))
m = json.load(open('/verif/MANIFEST.json'))
for c in m['checks']:
    p = c['evidence_file']
    try:
        jsonschema.validate(json.load(open(p)), es)
    except Exception as e:
        print('INVALID', p, str(e)[:300]); continue
    print('ok', p)
print('manifest ok; claimed', [c['property_id'] for c in m['checks']])
