#!/bin/bash
# usage: run_all.sh [seed] [ids...]  - runs the quick tier of every check sequentially, one line per check
SEED=${1:-1}; shift
IDS=${@:-C01 C02 C03 C04 C05 C06 C07 C08 C09 C10 C11 C12 C13 C14 C15 C16 C17 C18 C19 C20}
for id in $IDS; do
  s=$(date +%s)
  out=$(VERIF_SEED=$SEED VERIF_QUIET_PANICS=1 /verif/check $id 2>&1); rc=$?
  e=$(date +%s)
  echo "seed=$SEED $id rc=$rc $((e-s))s $(echo "$out" | grep -c KNOWN-FINDING) known; $(echo "$out" | grep -E 'signature:|INCONCLUSIVE' | head -2 | tr '\n' ' ' | cut -c1-200)"
done
