#!/usr/bin/env python3
"""Regenerates Appendix B (from seeded/*/meta.json) and Appendix C (from known_findings.json) of DESIGN.md
between the BEGIN/END markers."""
import json, glob, os, re
R='/verif'
def table_c():
    k=json.load(open(f'{R}/known_findings.json'))
    lst=k if isinstance(k,list) else k['findings']
    out=['## Appendix C - defects found in iwe-org/iwe (mirror of known_findings.json)','',
         'Fixed (one `fix:` commit each in /repo; the replay is a regression case that must pass; nothing is suppressed):','',
         '| entry | properties | commit | what failed |','|---|---|---|---|']
    for e in lst:
        if e['status']=='fixed':
            out.append(f"| {e['id']} | {', '.join(e['properties'])} | {e.get('commit')} | {e['what']} |")
    out+=['','Known (recorded, not repaired: the repair is not small, or a pinned test requires the behaviour). `excludes` are the generator features / scan predicates taken out of the strict search while the finding reproduces:','',
          '| entry | properties | what fails | excludes |','|---|---|---|---|']
    for e in lst:
        if e['status']!='fixed':
            out.append(f"| {e['id']} | {', '.join(e['properties'])} | {e['what']} | {', '.join(e.get('excludes') or []) or '-'} |")
    return '\n'.join(out)
def table_b():
    out=['## Appendix B - sensitivity: which check catches which seeded change','',
         'Each row is a change to iwe-org/iwe written by a sub-agent that saw only the text of one property (five rounds: two changes per property, then a third change for twelve properties, a fourth for the other eight and a fifth for those twelve again, each time after the checks had been strengthened); it compiles, keeps the 252 tests green, and breaks the property only under the stated circumstances. Confirmed by hand (suite green with the patch, demonstration fails with it and passes without), then run against the quick tier of the listed checks with `tools/mutrun.sh` (patched copy of /repo, seed 1). "caught by" = exit 1 with a VIOLATION line. Every change is caught by the check of the property it was written against, with two exceptions explained in the note column: one change became inert and one stopped violating its property when defects it leaned on were repaired in /repo. Checks that missed a change at first and were strengthened until they caught it: C05 (now also judged on a library reached through updates - C05-2), C11 (non-monotone document versions - C11-2), C12 (malformed and unknown notifications - C12-2), C18 (second door through updates - C18-2), C19 (dotted file names - C19-1); before the third round was run: the key pool got dotted names (C05-3), the odd file-name segments percent-hex sequences (C14-3), C18 rooted include cycles in its strict domain (C18-3) and the document generator empty block quotes (C20-3) - all four would have been missed without. The fourth round (C01, C02, C03, C07, C11, C15, C16, C19) led to: fence-like lines (also indented) inside generated code bodies (C01-4), ordered lists of a hundred and more items in the document generator and in the scale family of C03 (C03-4), titles that hold a link to another note in the libraries of C16 (C16-4), and notes that are symbolic links in the trees of C19 (C19-4); C02-4, C07-4, C11-4 and C15-4 were caught by the checks as they stood. A fifth round gave the other twelve properties (C04, C05, C06, C08, C09, C10, C12, C13, C14, C17, C18, C20) one more change each, this time asking for a site or mechanism other than the obvious one (arena slots handed out again after a delete, tombstones popped off the tail of the arena, a HashMap::extend that replaces instead of merging, a builder helper that moves the cursor, a memo table keyed without the depth, Url::join instead of path segments, a string-prefix fast path for relative urls, a marker rule that looks at one neighbour only). Ten were caught by the checks as they stood; two were missed by the check of their own property and caught only by neighbours, and both checks were strengthened until they caught them: C06 (C06-5: the key pool had no note whose name starts with the characters of a directory it is not in - `d-x`, `d/ex/k` added; the same gap had let C15-1 pass C06) and C10 (C10-5: notes in which two lists touch had been discarded since the days of the adjacent-lists defect; they are now judged on conservation and on change-list-type twice = identity, which do not need the span model). Changes written against earlier heads were ported when a fix in /repo touched the same lines (notes.md of each says so).','',
         '| seed | breaks | needs, to manifest | caught by (signature) | not caught by | note |','|---|---|---|---|---|---|']
    for d in sorted(glob.glob(f'{R}/seeded/*/meta.json')):
        m=json.load(open(d))
        c='; '.join(f"{x['check']} ({x['signature']})" for x in m.get('detected_by',[])) or '-'
        n=', '.join(m.get('not_detected_by',[])) or '-'
        needs=m['needs'].replace('|','\\|').replace('\n',' ')
        c=c.replace('|','\\|')
        out.append(f"| {m['name']} | {m['property']} | {needs} | {c} | {n} | {m.get('status_on_head','').replace('|','/')} |")
    return '\n'.join(out)
s=open(f'{R}/DESIGN.md').read()
for tag,fn in (('B',table_b),('C',table_c)):
    b=f'<!-- APPENDIX-{tag} BEGIN (generated by tools/mkappendix.py) -->'; e=f'<!-- APPENDIX-{tag} END -->'
    if f'APPENDIX_{tag}_PLACEHOLDER' in s: s=s.replace(f'APPENDIX_{tag}_PLACEHOLDER', b+'\n'+e)
    i=s.index(b); j=s.index(e)
    s=s[:i]+b+'\n'+fn()+'\n'+s[j:]
open(f'{R}/DESIGN.md','w').write(s)
