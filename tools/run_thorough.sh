#!/bin/bash
# usage: run_thorough.sh [ids...] - runs the thorough tier of the checks one after the other; one line per check
IDS=${@:-C15 C01 C02 C07 C05 C06 C17 C18 C20 C12 C08 C13 C09 C10 C04 C14 C16 C03 C11 C19}
for id in $IDS; do
  s=$(date +%s)
  out=$(VERIF_SEED=${VERIF_SEED:-1} VERIF_QUIET_PANICS=1 /verif/check $id --tier thorough 2>&1); rc=$?
  e=$(date +%s)
  echo "thorough $id rc=$rc $((e-s))s $(echo "$out" | grep -E '^property=' | cut -c1-160) $(echo "$out" | grep -E 'signature:|INCONCLUSIVE' | head -3 | tr '\n' ' ' | cut -c1-300)"
  echo "$out" > /verif/work/thorough-$id.log
done
