#!/bin/bash
# usage: mutrun.sh <name> <patch.diff> <ID> [<ID>...]
# Runs the quick checks against a patched COPY of /repo, fully isolated from /repo and /verif:
#   worktree /tmp/mut/<name>/repo, engine copy /tmp/mut/<name>/engine, verif root /tmp/mut/<name>/verif
# Prints one line per check: "<name> <ID> rc=<rc> <first signature>". Cleans up afterwards.
NAME=$1; PATCH=$2; shift 2
SLOT=${MUT_SLOT:-cur}
M=/tmp/mut/$SLOT
TGT=/tmp/mut/target${MUT_SLOT:+-$MUT_SLOT}
git -C /repo worktree remove --force $M/repo 2>/dev/null
rm -rf $M; mkdir -p $M/verif/work
git -C /repo worktree remove --force $M/repo 2>/dev/null
git -C /repo worktree add --detach $M/repo HEAD >/dev/null 2>&1 || { echo "$NAME worktree failed"; exit 2; }
if ! git -C $M/repo apply "$PATCH" 2>/dev/null; then echo "$NAME PATCH-DOES-NOT-APPLY"; git -C /repo worktree remove --force $M/repo; rm -rf $M; exit 3; fi
cp -a /verif/engine $M/engine
sed -i "s#/repo/crates#$M/repo/crates#g" $M/engine/Cargo.toml
sed -i "s#/verif/work/target#$TGT#" $M/engine/.cargo/config.toml
cp /verif/known_findings.json $M/verif/; cp -a /verif/replays $M/verif/replays; rm -f $M/verif/replays/*/new-*.json
(cd $M/engine && cargo build --release --offline >$M/build.log 2>&1) || { echo "$NAME ENGINE-BUILD-FAILED"; tail -5 $M/build.log; }
NEED_IWE=0; for id in "$@"; do [ "$id" = "C19" ] && NEED_IWE=1; done
if [ $NEED_IWE = 1 ]; then (cd $M/repo && CARGO_TARGET_DIR=$TGT-iwe cargo build --release --offline -p iwe >$M/build-iwe.log 2>&1); export VERIF_IWE_BIN=$TGT-iwe/release/iwe; fi
for id in "$@"; do
  out=$(VERIF_ROOT_DIR=$M/verif VERIF_QUIET_PANICS=1 $TGT/release/vcheck run $id --tier quick 2>&1); rc=$?
  sig=$(echo "$out" | grep -m1 "signature:" | sed 's/^ *signature: //' | cut -c1-120)
  echo "$NAME $id rc=$rc $sig"
done
git -C /repo worktree remove --force $M/repo 2>/dev/null
rm -rf $M
