#!/bin/bash
# usage: mutfuzz.sh <name> <patch.diff> <ID> [runs]
# Like mutrun.sh, but judges the patched copy of /repo with the coverage-guided phase ONLY
# (VERIF_FUZZ_ONLY=1: no proptest search), i.e. what the libFuzzer targets find on their own.
NAME=$1; PATCH=$2; ID=$3; RUNS=${4:-2000}
SLOT=${MUT_SLOT:-F}
M=/tmp/mut/$SLOT
TGT=/tmp/mut/target-$SLOT
git -C /repo worktree remove --force $M/repo 2>/dev/null
rm -rf $M; mkdir -p $M/verif/work
git -C /repo worktree add --detach $M/repo HEAD >/dev/null 2>&1 || { echo "$NAME worktree failed"; exit 2; }
if ! git -C $M/repo apply "$PATCH" 2>/dev/null; then echo "$NAME PATCH-DOES-NOT-APPLY"; git -C /repo worktree remove --force $M/repo; rm -rf $M; exit 3; fi
cp -a /verif/engine $M/engine
sed -i "s#/repo/crates#$M/repo/crates#g" $M/engine/Cargo.toml
sed -i "s#/verif/work/target#$TGT#" $M/engine/.cargo/config.toml
sed -i "s#/verif/work/target-fuzz#$TGT-fuzz#" $M/engine/fuzz/.cargo/config.toml
cp /verif/known_findings.json $M/verif/; cp -a /verif/replays $M/verif/replays; rm -f $M/verif/replays/*/new-*.json
(cd $M/engine && cargo build --release --offline >$M/build.log 2>&1) || { echo "$NAME ENGINE-BUILD-FAILED"; tail -5 $M/build.log; }
(cd $M/engine/fuzz && cargo +nightly fuzz build -O -s none >$M/build-fuzz.log 2>&1) || { echo "$NAME FUZZ-BUILD-FAILED"; tail -5 $M/build-fuzz.log; }
out=$(VERIF_ROOT_DIR=$M/verif VERIF_QUIET_PANICS=1 VERIF_FUZZ_ONLY=1 VERIF_FUZZ_RUNS=$RUNS VERIF_FUZZ_BIN_DIR=$TGT-fuzz/x86_64-unknown-linux-gnu/release $TGT/release/vcheck run $ID --tier thorough 2>&1); rc=$?
sig=$(echo "$out" | grep -m1 "signature:" | sed 's/^ *signature: //' | cut -c1-120)
tgt=$(echo "$out" | grep -m1 -o "coverage-guided phase, target [a-z_]*")
echo "$NAME $ID fuzz-only rc=$rc $sig ($tgt)"
echo "$out" | grep -E 'INCONCLUSIVE|inconclusive' | head -3
git -C /repo worktree remove --force $M/repo 2>/dev/null
rm -rf $M
