#!/bin/bash
# usage: verify_seed.sh <name> <srcdir> [<adapted patch>]
# Confirms a seeded change on the current /repo HEAD in a scratch worktree:
#   patch applies, full suite passes with it, demo fails with it, demo passes without it.
# On success copies everything to /verif/seeded/<name>/ and writes meta.json skeleton.
NAME=$1; SRC=$2; PATCH=${3:-$SRC/patch.diff}
WT=/tmp/seedverify-wt-$NAME
export CARGO_TARGET_DIR=${SEEDVERIFY_TARGET:-/tmp/seedverify-target}
LOG=/tmp/seedverify-$NAME.log
exec >"$LOG" 2>&1
git -C /repo worktree remove --force $WT 2>/dev/null
git -C /repo worktree add --detach $WT HEAD || exit 2
cd $WT
git apply --check "$PATCH" || { echo "RESULT $NAME: patch does not apply"; git -C /repo worktree remove --force $WT; exit 3; }
# demo placement
DEMOCMD=$(cat $SRC/DEMO_CMD.txt)
echo "DEMO_CMD: $DEMOCMD"
place_demo() {
  for f in $SRC/*.rs; do
    b=$(basename $f)
    case "$b" in
      *iwes*) cp $f crates/iwes/tests/$b;;
      *liwe*) cp $f crates/liwe/tests/$b;;
      *) if grep -q "iwes" $SRC/DEMO_CMD.txt; then cp $f crates/iwes/tests/$b; else cp $f crates/liwe/tests/$b; fi;;
    esac
  done
}
run_demo() {
  rc=0
  for f in $SRC/*.rs; do
    b=$(basename $f .rs)
    if [ -f crates/iwes/tests/$b.rs ]; then cargo test --offline -p iwes --test $b 2>&1 | tail -15; [ ${PIPESTATUS[0]} -ne 0 ] && rc=1; fi
    if [ -f crates/liwe/tests/$b.rs ]; then cargo test --offline -p liwe --test $b 2>&1 | tail -15; [ ${PIPESTATUS[0]} -ne 0 ] && rc=1; fi
  done
  return $rc
}
git apply "$PATCH"
echo "=== suite with patch"
cargo test --workspace --no-fail-fast --offline 2>&1 | awk '/^test result/ {p+=$4; f+=$6} END {print "passed=" p " failed=" f}' | tee /tmp/seedverify-$NAME.suite
place_demo
echo "=== demo with patch (must fail)"
run_demo; WITH=$?
git checkout -- . 
echo "=== demo without patch (must pass)"
run_demo; WITHOUT=$?
SUITE=$(cat /tmp/seedverify-$NAME.suite)
echo "RESULT $NAME: suite[$SUITE] demo_with_patch_rc=$WITH demo_without_patch_rc=$WITHOUT"
if [ "$SUITE" = "passed=252 failed=0" ] && [ $WITH -ne 0 ] && [ $WITHOUT -eq 0 ]; then
  mkdir -p /verif/seeded/$NAME
  cp "$PATCH" /verif/seeded/$NAME/patch.diff
  cp $SRC/*.rs $SRC/DEMO_CMD.txt /verif/seeded/$NAME/ 2>/dev/null
  cp $SRC/notes.md /verif/seeded/$NAME/notes.md 2>/dev/null
  echo "CONFIRMED $NAME"
fi
cd /; git -C /repo worktree remove --force $WT
